package main

// C03 (zoom change) and the machine-level histories that compose it.

import (
	"fmt"

	"github.com/trajectoryjp/spatial_id_go/v4/integrate"
)

func strs(a any) []string {
	if a == nil {
		return nil
	}
	return a.([]string)
}

// randomIDList draws 1..n IDs with mixed zooms, nested and duplicated entries.
func (r Rng) randomIDList(w Win, hDepth, vDepth int64, n int, sp bool) []ID {
	k := 1 + r.Intn(n)
	out := make([]ID, 0, k)
	for len(out) < k {
		var id ID
		switch {
		case len(out) > 0 && r.Chance(0.15): // duplicate
			id = out[r.Intn(len(out))]
		case len(out) > 0 && r.Chance(0.25): // descendant / ancestor of an earlier entry
			b := out[r.Intn(len(out))]
			id = r.relative(b, hDepth, vDepth)
		default:
			id = r.randomID(w, hDepth, vDepth)
		}
		if sp {
			id = r.randomIDAt(w, id.H, id.H)
			if id.H > vDepth {
				continue
			}
		}
		if len(out) > 0 && !noStride && r.Chance(0.07) {
			if tw, ok := r.strided(w, out[r.Intn(len(out))]); ok {
				id = tw
			}
		}
		out = append(out, id)
	}
	return out
}

// noStride: set by drivers whose later steps refine the IDs by many levels (histories)
var noStride bool

// zoomTooBig: a refinement whose indices leave TLC's integers is unrepresentable (skipped, not judged)
func zoomTooBig(ids []ID, h, v int64) bool {
	for _, s := range ids {
		dh, dv := uint(maxI(0, h-s.H)), uint(maxI(0, v-s.V))
		if dh > 30 || dv > 30 || (abs64(s.X)+1)<<dh >= 1<<29 || (abs64(s.Y)+1)<<dh >= 1<<29 || (abs64(s.F)+1)<<dv >= 1<<29 {
			return true
		}
	}
	return false
}

// strided returns b displaced by +-2^j on some of its axes (j = 8 .. 28): voxels whose indices agree
// in their low bits, the pattern on which masked / packed / hashed keys collide.
func (r Rng) strided(w Win, b ID) (ID, bool) {
	realH, realV := w.H0+b.H, w.V0+b.V
	js := []int64{8, 10, 12, 16, 20, 21, 22, 24, 28}
	j := js[r.Intn(len(js))]
	id := b
	moved := false
	axes := 1 + r.Intn(7) // non-empty subset of {x, y, f}
	step := r.Pick(-1, 1) * (int64(1) << uint(j))
	if axes&1 != 0 && j+2 < realH {
		id.X += step
		moved = true
	}
	if axes&2 != 0 && j+2 < realH {
		id.Y += step
		moved = true
	}
	if axes&4 != 0 && j+1 < realV {
		nv := int64(1) << uint(realV)
		if rf := w.E(b).F + step; rf >= -nv && rf < nv {
			id.F += step
			moved = true
		}
	}
	if !moved || abs64(id.X) >= 1<<28 || abs64(id.Y) >= 1<<28 || abs64(id.F) >= 1<<28 {
		return b, false
	}
	if w.Abs {
		nh := int64(1) << uint(b.H)
		id.X, id.Y = ((id.X%nh)+nh)%nh, ((id.Y%nh)+nh)%nh
	} else if rid := w.E(id); rid.Y < 0 || rid.Y >= int64(1)<<uint(realH) {
		return b, false
	}
	return id, true
}

// relative returns a descendant or the ancestor of b at other zooms (floor).
func (r Rng) relative(b ID, hDepth, vDepth int64) ID {
	h := r.In(0, hDepth)
	v := r.In(0, vDepth)
	return r.relativeAt(b, h, v)
}

func (r Rng) relativeAt(b ID, h, v int64) ID {
	id := ID{H: h, V: v}
	id.X = rescale(b.X, b.H, h, r)
	id.Y = rescale(b.Y, b.H, h, r)
	id.F = rescale(b.F, b.V, v, r)
	return id
}

func rescale(x, from, to int64, r Rng) int64 {
	if to >= from {
		d := uint(to - from)
		return x<<d + r.In(0, (int64(1)<<d)-1)
	}
	return x >> uint(from-to) // arithmetic shift = floor
}

func zoomCost(ids []ID, h, v int64) int64 {
	var c int64
	for _, s := range ids {
		var bits int64
		if h > s.H {
			bits += 2 * (h - s.H)
		}
		if v > s.V {
			bits += v - s.V
		}
		if bits > 40 {
			bits = 40
		}
		c += int64(1) << uint(bits)
	}
	return c
}

// evVolume: refinements of a million voxels and more (beyond what is shipped to TLC entry by entry):
// a voxel together with voxels nested in it, or repeated; only the counts are recorded.
func evVolume(t *Tracer, fn string, ids []ID, top ID, h, v int64) {
	real := make([]string, len(ids))
	for i, s := range ids {
		real[i] = s.String()
		if fn == "ChangeZoomSp" {
			real[i] = s.Sp()
		}
	}
	o, res := guard(func() (any, error) {
		switch fn {
		case "ChangeZoomExt":
			return integrate.ChangeExtendedSpatialIdsZoom(real, h, v)
		case "ChangeZoomSp":
			return integrate.ChangeSpatialIdsZoom(real, h)
		case "HorizontalZoom":
			return integrate.HorizontalZoom(top.H, top.X, top.Y, h), nil
		}
		return integrate.VerticalZoom(top.V, top.F, v), nil
	})
	e := absW.ev("Volume", map[string]any{"fn": fn, "ids": idsArr(ids), "top": top.Arr(), "h": h, "v": v})
	e.O = o
	e.R = map[string]any{"n": 0, "nd": 0}
	if o == "ok" {
		out := strs(res)
		seen := make(map[string]struct{}, len(out))
		for _, s := range out {
			seen[s] = struct{}{}
		}
		e.R = map[string]any{"n": len(out), "nd": len(seen)}
	} else {
		e.Bad = "outcome " + o
	}
	t.Emit(e, true)
}

func driveVolume(t *Tracer, r Rng) {
	// a voxel and one nested / repeated companion, refined to 2^20 .. 2^21 voxels
	z := r.In(4, 12)
	n := int64(1) << uint(z)
	top := ID{H: z, X: r.In(0, n-1), Y: r.In(0, n-1), V: z, F: r.In(-n, n-1)}
	comp := func(dh, dv int64) ID {
		return ID{top.H + dh, top.X<<uint(dh) + r.In(0, 1<<uint(dh)-1), top.Y<<uint(dh) + r.In(0, 1<<uint(dh)-1), top.V + dv, top.F<<uint(dv) + r.In(0, 1<<uint(dv)-1)}
	}
	switch r.Intn(3) {
	case 0:
		evVolume(t, "ChangeZoomExt", []ID{top, comp(r.In(0, 2), r.In(0, 2))}, top, top.H+7, top.V+r.In(6, 7))
	case 1:
		evVolume(t, "ChangeZoomExt", []ID{comp(1, 1), top, top}, top, top.H+8, top.V+r.In(4, 5))
	default:
		c := comp(1, 1)
		evVolume(t, "ChangeZoomSp", []ID{top, c}, top, top.H+7, top.V+7)
	}
	evVolume(t, "HorizontalZoom", nil, top, top.H+10, top.V)
	evVolume(t, "VerticalZoom", nil, top, top.H, top.V+20)
}

func driveZoom(t *Tracer, r Rng, n int) {
	if n >= 1000 {
		driveVolume(t, r)
	}
	for i := 0; i < n; i++ {
		if i%400 == 7 && i < 10000 { // a large refinement of one voxel (up to 4^8 or 2^14 descendants)
			hD, vD := r.In(6, 20), r.In(6, 20)
			w := r.randomWindow(hD, vD, false)
			var id ID
			var h, v int64
			if r.Chance(0.5) {
				dh := r.In(6, 8)
				id = r.randomIDAt(w, r.In(0, hD-dh), r.In(0, vD))
				h, v = id.H+dh, r.In(0, id.V)
			} else {
				dv := r.In(9, 14)
				if dv > vD {
					dv = vD
				}
				id = r.randomIDAt(w, r.In(0, hD), r.In(0, vD-dv))
				h, v = r.In(0, id.H), id.V+dv
			}
			evChangeZoomExt(t, w, []ID{id}, h, v)
			continue
		}
		if i == 3 { // one very long list per run: beyond 2^16 entries (16-bit counters, chunked processing)
			w := Win{Abs: true}
			var ids []ID
			for k := 0; k < 66000; k++ {
				ids = append(ids, ID{H: 9, X: int64(k % 512), Y: int64(k / 512 % 512), V: 3, F: int64(k%16) - 8})
			}
			evChangeZoomExt(t, w, ids, 9, 3)
			continue
		}
		if i%500 == 13 { // a long list (hundreds of voxels of one zoom pair), kept or coarsened by one level
			hD, vD := r.In(5, 9), r.In(5, 9)
			w := r.randomWindow(hD, vD, false)
			var ids []ID
			for k := r.Pick(255, 256, 257, 1000, 1023, 1024, 1025, r.In(300, 1200)); k > 0; k-- {
				ids = append(ids, r.randomIDAt(w, hD, vD))
			}
			evChangeZoomExt(t, w, ids, hD-r.In(0, 1), vD-r.In(0, 1))
			sw := r.randomWindow(hD, hD, true)
			ids = ids[:0]
			for k := r.Pick(255, 256, 257, 1000, 1023, 1024, 1025, r.In(300, 1200)); k > 0; k-- {
				ids = append(ids, r.randomIDAt(sw, hD, hD))
			}
			evChangeZoomSp(t, sw, ids, hD-r.In(0, 1))
			continue
		}
		switch r.Intn(10) {
		case 0, 1, 2, 3, 4:
			hD, vD := r.In(0, 8), r.In(0, 8)
			if r.Chance(0.3) {
				hD, vD = r.In(0, 24), r.In(0, 24)
			}
			w := r.randomWindow(hD, vD, false)
			ids := r.randomIDList(w, hD, vD, 5, false)
			h, v := r.In(0, hD), r.In(0, vD)
			for tries := 0; zoomCost(ids, h, v) > 3000 && tries < 50; tries++ {
				h, v = r.In(0, hD), r.In(0, vD)
			}
			if zoomCost(ids, h, v) > 3000 {
				continue
			}
			evChangeZoomExt(t, w, ids, h, v)
		case 5, 6:
			d := r.In(0, 8)
			if r.Chance(0.3) {
				d = r.In(0, 24)
			}
			w := r.randomWindow(d, d, true)
			ids := r.randomIDList(w, d, d, 4, true)
			z := r.In(0, d)
			for tries := 0; zoomCost(ids, z, z) > 3000 && tries < 50; tries++ {
				z = r.In(0, d)
			}
			if zoomCost(ids, z, z) > 3000 {
				continue
			}
			evChangeZoomSp(t, w, ids, z)
		case 7:
			d := r.In(0, 28)
			w := r.randomWindow(d, d, false)
			id := r.randomID(w, d, d)
			if r.Chance(0.5) {
				evHorizontalZoom(t, w, id, r.In(0, d), true) // corners only: any zoom difference
			} else {
				evHorizontalZoom(t, w, id, r.In(maxI(0, id.H-28), minI(d, id.H+5)), false)
			}
		default:
			d := r.In(0, 28)
			w := r.randomWindow(d, d, false)
			id := r.randomID(w, d, d)
			zo := r.In(maxI(0, id.V-28), minI(d, id.V+10))
			evVerticalZoom(t, w, id, zo)
		}
	}
}

func evChangeZoomExt(t *Tracer, w Win, ids []ID, h, v int64) {
	if !(w.validIDs(ids...)) {
		return // outside the documented domain: not a case
	}
	if zoomTooBig(ids, h, v) {
		return
	}
	real := w.embedExtList(ids)
	snap := append([]string(nil), real...)
	o, res := guard(func() (any, error) {
		return integrate.ChangeExtendedSpatialIdsZoom(real, w.H0+h, w.V0+v)
	})
	e := w.ev("ChangeZoomExt", map[string]any{"ids": idsArr(ids), "h": h, "v": v, "kept": intact(real, snap)})
	e.O, e.Real = o, map[string]any{"ids": snap, "h": w.H0 + h, "v": w.V0 + v}
	if o != "panic" {
		e.R = w.projExtList(strs(res), &e.Bad)
	} else {
		e.R = []any{}
		e.Bad = "panic:" + fmt.Sprint(res)
	}
	t.Emit(e, zoomCost(ids, h, v) > int64(len(ids)))
}

func evChangeZoomSp(t *Tracer, w Win, ids []ID, z int64) {
	if !(w.validIDs(ids...)) {
		return // outside the documented domain: not a case
	}
	if zoomTooBig(ids, z, z) {
		return
	}
	real := w.embedSpList(ids)
	snap := append([]string(nil), real...)
	o, res := guard(func() (any, error) {
		return integrate.ChangeSpatialIdsZoom(real, w.H0+z)
	})
	e := w.ev("ChangeZoomSp", map[string]any{"ids": idsSpArr(ids), "z": z, "kept": intact(real, snap)})
	e.O, e.Real = o, map[string]any{"ids": snap, "z": w.H0 + z}
	if o != "panic" {
		e.R = w.projSpList(strs(res), &e.Bad)
	} else {
		e.R = []any{}
		e.Bad = "panic:" + fmt.Sprint(res)
	}
	t.Emit(e, zoomCost(ids, z, z) > int64(len(ids)))
}

// HorizontalZoom / HorizontalZoomMinMax: result components "z/x/y".
func evHorizontalZoom(t *Tracer, w Win, id ID, zo int64, minmax bool) {
	rid := w.E(id)
	if minmax {
		o, res := guard(func() (any, error) {
			a, b, c, d := integrate.HorizontalZoomMinMax(rid.H, rid.X, rid.Y, w.H0+zo)
			return []int64{a, b, c, d}, nil
		})
		e := w.ev("HorizontalZoomMinMax", map[string]any{"zi": id.H, "x": id.X, "y": id.Y, "zo": zo})
		e.O, e.Real = o, map[string]any{"zi": rid.H, "x": rid.X, "y": rid.Y, "zo": w.H0 + zo}
		if o == "ok" {
			v := res.([]int64)
			// project the two corners as IDs at the output zoom
			p1, ok1 := w.PH(w.H0+zo, v[0], v[1])
			p2, ok2 := w.PH(w.H0+zo, v[2], v[3])
			e.R = []int64{p1.X, p1.Y, p2.X, p2.Y}
			if !(ok1 && ok2) {
				e.R = []any{}
				e.Bad = "far"
			}
		} else {
			e.R = []any{}
			e.Bad = "panic"
		}
		t.Emit(e, zo != id.H)
		return
	}
	if zo > id.H+5 {
		zo = id.H + 5
	}
	o, res := guard(func() (any, error) {
		return integrate.HorizontalZoom(rid.H, rid.X, rid.Y, w.H0+zo), nil
	})
	e := w.ev("HorizontalZoom", map[string]any{"zi": id.H, "x": id.X, "y": id.Y, "zo": zo})
	e.O, e.Real = o, map[string]any{"zi": rid.H, "x": rid.X, "y": rid.Y, "zo": w.H0 + zo}
	if o == "ok" {
		out := []any{}
		for _, s := range strs(res) {
			a, ok := ParseInts(s, 3)
			if !ok {
				e.Bad = "malformed:" + s
				continue
			}
			p, ok := w.PH(a[0], a[1], a[2])
			if !ok {
				e.Bad = "far:" + s
				continue
			}
			out = append(out, []int64{p.H, p.X, p.Y})
		}
		e.R = out
	} else {
		e.R = []any{}
		e.Bad = "panic:" + fmt.Sprint(res)
	}
	t.Emit(e, zo != id.H)
}

func evVerticalZoom(t *Tracer, w Win, id ID, zo int64) {
	rid := w.E(id)
	o, res := guard(func() (any, error) {
		return integrate.VerticalZoom(rid.V, rid.F, w.V0+zo), nil
	})
	e := w.ev("VerticalZoom", map[string]any{"zi": id.V, "f": id.F, "zo": zo})
	e.O, e.Real = o, map[string]any{"zi": rid.V, "f": rid.F, "zo": w.V0 + zo}
	if o == "ok" {
		out := []any{}
		for _, s := range strs(res) {
			a, ok := ParseInts(s, 2)
			if !ok {
				e.Bad = "malformed:" + s
				continue
			}
			p, ok := w.PV(a[0], a[1])
			if !ok {
				e.Bad = "far:" + s
				continue
			}
			out = append(out, []int64{p.V, p.F})
		}
		e.R = out
	} else {
		e.R = []any{}
		e.Bad = "panic:" + fmt.Sprint(res)
	}
	t.Emit(e, zo != id.V)
}

// Argument lists are handed to the library with two sentinel entries of spare
// capacity behind their length (the way a caller's sub-slice ids[:k] of a longer
// list looks): "left unmodified" covers the caller's memory behind the slice too.
const spareSentinel = "\x00spare"

func spareOf[T any](ss []T, sent T) []T {
	p := make([]T, len(ss)+2)
	copy(p, ss)
	p[len(ss)], p[len(ss)+1] = sent, sent
	return p[:len(ss) : len(ss)+2]
}

func tailIntact[T comparable](ss []T, sent T) bool {
	if cap(ss) < len(ss)+2 {
		return true
	}
	q := ss[:len(ss)+2]
	return q[len(ss)] == sent && q[len(ss)+1] == sent
}

func spare(ss []string) []string { return spareOf(ss, spareSentinel) }

// intact: in (made by spare) still equals its snapshot and its spare capacity is untouched
func intact(in, snap []string) bool { return sameStrings(in, snap) && tailIntact(in, spareSentinel) }

func sameStrings(a, b []string) bool {
	if len(a) != len(b) {
		return false
	}
	for i := range a {
		if a[i] != b[i] {
			return false
		}
	}
	return true
}
