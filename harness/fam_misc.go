package main

// The rest of the exported surface (not tied to one listed property): zoom
// predicate, error values, plain data objects, the point helpers of
// common/spatial, angle conversion.  Specified in Helpers.tla (Misc section),
// validated by TLC like everything else; part of C20's driver set.

import (
	"math"

	"github.com/trajectoryjp/spatial_id_go/v4/common"
	sperr "github.com/trajectoryjp/spatial_id_go/v4/common/errors"
	"github.com/trajectoryjp/spatial_id_go/v4/common/object"
	"github.com/trajectoryjp/spatial_id_go/v4/common/spatial"
	"github.com/trajectoryjp/spatial_id_go/v4/shape"
)

func evCheckZoom(t *Tracer, z int64) {
	e := absW.ev("CheckZoom", map[string]any{"z": z})
	e.O = "ok"
	e.R = []bool{shape.CheckZoom(z)}
	t.Emit(e, true)
}

func evErrorValue(t *Tracer, which int64, detail string) {
	codes := []string{"InputValueError", "OptionFailedError", "ValueConvertError", "OtherError"}
	var err error
	switch which {
	case 0:
		err = sperr.NewSpatialIdError(sperr.InputValueErrorCode, detail)
	case 1:
		err = sperr.NewSpatialIdError(sperr.OptionFailedErrorCode, detail)
	case 2:
		err = sperr.NewSpatialIdError(sperr.ValueConvertErrorCode, detail)
	default:
		err = sperr.NewSpatialIdError(sperr.OtherErrorCode, detail)
	}
	s := err.Error()
	e := absW.ev("ErrorValue", map[string]any{"code": codes[which], "detail": detail})
	e.O = "ok"
	// the message is "<code>,<fixed text>[,<detail>]": record the first and (if any) last comma-separated field
	first, last, n := s, "", 1
	for i := 0; i < len(s); i++ {
		if s[i] == ',' {
			if n == 1 {
				first = s[:i]
			}
			n++
		}
	}
	if detail != "" && len(s) >= len(detail) {
		last = s[len(s)-len(detail):]
	}
	e.R = map[string]any{"first": first, "fields": n, "last": last, "same": err == sperr.NewSpatialIdError(sperr.InputValueErrorCode, detail)}
	t.Emit(e, true)
}

func evObjects(t *Tracer, v []int64) {
	e := absW.ev("Objects", map[string]any{"v": v})
	e.O = "ok"
	q := object.NewQuadkeyAndVerticalID(v[0], v[1], v[2], v[3], float64(v[4]), float64(v[5]))
	tile, terr := object.NewTileXYZ(v[0]%36, v[1], v[2], v[3]%36, v[4])
	g1 := object.NewFromExtendedSpatialIDToQuadkeyAndVerticalID(v[0], [][2]int64{{v[1], v[2]}}, v[3], float64(v[4]), float64(v[5]))
	g2 := object.NewFromExtendedSpatialIDToQuadkeyAndAltitudekey(v[0], [][2]int64{{v[1], v[2]}}, v[3], v[4], v[5])
	ext := &object.ExtendedSpatialID{}
	ext.SetZoom(v[0], v[3])
	ext.SetX(v[1])
	ext.SetY(v[2])
	ext.SetZ(v[4])
	p := &object.Point{}
	p.SetAlt(float64(v[5]))
	tl := []int64{}
	if terr == nil {
		tl = []int64{tile.HZoom(), tile.X(), tile.Y(), tile.VZoom(), tile.Z()}
	}
	e.R = map[string]any{
		"qk":   []int64{q.QuadkeyZoom(), q.Quadkey(), q.VZoom(), q.VIndex(), int64(q.MaxHeight()), int64(q.MinHeight())},
		"tile": tl,
		"g1":   []int64{g1.QuadkeyZoom(), g1.InnerIDList()[0][0], g1.InnerIDList()[0][1], g1.VerticalZoom(), int64(g1.MaxHeight()), int64(g1.MinHeight())},
		"g2":   []int64{g2.QuadkeyZoom(), g2.InnerIDList()[0][0], g2.InnerIDList()[0][1], g2.AltitudekeyZoom(), g2.ZBaseExponent(), g2.ZBaseOffset()},
		"ext":  ext.FieldParams(),
		"alt":  int64(p.Alt()),
	}
	t.Emit(e, true)
}

func p3s(ps [][]int64) []*spatial.Point3 {
	out := make([]*spatial.Point3, len(ps))
	for i, a := range ps {
		q := p3(a)
		out[i] = &q
	}
	return out
}

func evPoint3(t *Tracer, pts [][]int64, dir []int64, add []int64, eps int64) {
	e := absW.ev("Point3", map[string]any{"pts": pts, "dir": dir, "add": add, "eps": eps})
	e.O = "ok"
	ps := p3s(pts)
	mx, e1 := spatial.MaxPoint(ps, v3(dir))
	mn, e2 := spatial.MinPoint(ps, v3(dir))
	ap := p3(add)
	ua := spatial.UniqueAppend(append([]*spatial.Point3(nil), ps...), &ap, float64(eps))
	toInts := func(p *spatial.Point3) []int64 {
		if p == nil {
			return []int64{}
		}
		r, _ := ints(p.X, p.Y, p.Z)
		return r
	}
	d2 := int64(0)
	close_ := false
	if len(pts) > 0 {
		d := ps[0].DistancePoint(ap)
		d2 = int64(math.Round(d * d))
		close_ = ps[0].IsClose(ap, float64(eps))
	}
	e.R = map[string]any{"max": toInts(mx), "min": toInts(mn), "errmax": e1 != nil, "errmin": e2 != nil,
		"appended": len(ua) - len(ps), "d2": d2, "close": close_,
		"almost": common.AlmostEqual(float64(dir[0]), float64(add[0]), float64(eps))}
	t.Emit(e, true)
}

func evAngles(t *Tracer, deg float64) {
	e := absW.ev("Angles", map[string]any{"deg": fstr(deg)})
	e.O = "ok"
	rad := common.DegreeToRadian(deg)
	back := common.RadianToDegree(rad)
	e.R = map[string]any{
		"raddev":  units(rad-deg*math.Pi/180, 1e-15*math.Max(1, math.Abs(rad))),
		"backdev": units(back-deg, 1e-13*math.Max(1, math.Abs(deg))),
	}
	t.Emit(e, true)
}

// evObjHistory: one ExtendedSpatialID / TileXYZ / Point object driven through a random sequence of
// its setters; the observable state is recorded after every step (the object as a state machine).
func evObjHistory(t *Tracer, r Rng) {
	n := 2 + r.Intn(8)
	ops := make([]any, 0, n)
	obs := make([]any, 0, n)
	ext := &object.ExtendedSpatialID{}
	tile := &object.TileXYZ{}
	for i := 0; i < n; i++ {
		v := r.smallInts(5, -50, 50)
		if r.Chance(0.3) {
			v[r.Intn(5)] = 0 // zeros: a setter that "skips unchanged / empty values" would keep the old field
		}
		switch r.Intn(9) {
		case 0, 1, 2:
			id := ID{maxI(0, v[0]) % 36, abs64(v[1]), abs64(v[2]), maxI(0, v[3]) % 36, v[4]}
			text := id.String()
			if r.Chance(0.4) {
				text = respell(r, text) // the same numbers written with leading zeros / '+' / '-0'
			}
			err := ext.ResetExtendedSpatialID(text)
			ops = append(ops, []any{"reset", id.H, id.X, id.Y, id.V, id.F})
			if err != nil {
				obs = append(obs, []int64{-1})
				continue
			}
		case 3:
			ext.SetX(v[0])
			ops = append(ops, []any{"setx", v[0], 0, 0, 0, 0})
		case 4:
			ext.SetY(v[0])
			ops = append(ops, []any{"sety", v[0], 0, 0, 0, 0})
		case 5:
			ext.SetZ(v[0])
			ops = append(ops, []any{"setz", v[0], 0, 0, 0, 0})
		case 6:
			ext.SetZoom(v[0], v[1])
			ops = append(ops, []any{"setzoom", v[0], v[1], 0, 0, 0})
		case 7:
			e1 := tile.SetHZoom(v[0])
			tile.SetX(v[1])
			ops = append(ops, []any{"tileh", v[0], v[1], 0, 0, 0})
			_ = e1
		default:
			e1 := tile.SetVZoom(v[0])
			tile.SetY(v[1])
			tile.SetZ(v[2])
			ops = append(ops, []any{"tilev", v[0], v[1], v[2], 0, 0})
			_ = e1
		}
		fp := ext.FieldParams()
		obs = append(obs, []int64{fp[0], fp[1], fp[2], fp[3], fp[4], tile.HZoom(), tile.X(), tile.Y(), tile.VZoom(), tile.Z()})
	}
	e := absW.ev("ObjHistory", map[string]any{"ops": ops})
	e.O = "ok"
	e.R = obs
	t.Emit(e, true)
}

func driveMisc(t *Tracer, r Rng, n int) {
	for i := 0; i < n; i++ {
		if i%4 == 3 {
			evObjHistory(t, r)
			continue
		}
		if i%8 == 5 {
			evRegHistory(t, r)
			continue
		}
		switch r.Intn(5) {
		case 0:
			evCheckZoom(t, r.Pick(-1, 0, 1, 17, 34, 35, 36, 100, -(1<<40), 1<<40, r.In(-5, 40)))
		case 1:
			evErrorValue(t, r.In(0, 3), []string{"", "x", "index 5", "a b"}[r.Intn(4)])
		case 2:
			evObjects(t, r.smallInts(6, 0, 1000))
		case 3:
			k := r.Intn(5)
			pts := make([][]int64, k)
			for j := range pts {
				pts[j] = r.smallInts(3, -9, 9)
			}
			evPoint3(t, pts, r.smallInts(3, -4, 4), r.smallInts(3, -9, 9), r.In(0, 3))
		default:
			evAngles(t, (r.Float64()*2-1)*720)
		}
	}
}

func init() { families["misc"] = driveMisc }

// evRegHistory: the plain register objects (QuadkeyAndVerticalID and the two
// conversion-parameter objects) driven through random setter sequences; after
// every step all getters are read.  Slots 1..6 QuadkeyAndVerticalID (quadkey
// zoom, quadkey, vZoom, vIndex, maxHeight, minHeight), 7..11 the altitude-key
// parameters (quadkey zoom, inner list, altitudekey zoom, base exponent, base
// offset), 12..16 the vertical-ID parameters (quadkey zoom, inner list,
// vertical zoom, maxHeight, minHeight).
func evRegHistory(t *Tracer, r Rng) {
	iv := r.smallInts(16, 1, 40)
	pairs := func(k int64) ([][2]int64, []any) {
		n := int(k % 3)
		p := make([][2]int64, n)
		a := make([]any, n)
		for i := range p {
			p[i] = [2]int64{k + int64(i), k * 2}
			a[i] = []int64{k + int64(i), k * 2}
		}
		return p, a
	}
	qv := object.NewQuadkeyAndVerticalID(iv[0], iv[1], iv[2], iv[3], float64(iv[4]), float64(iv[5]))
	l1, a1 := pairs(iv[7])
	fa := object.NewFromExtendedSpatialIDToQuadkeyAndAltitudekey(iv[6], l1, iv[8], iv[9], iv[10])
	l2, a2 := pairs(iv[12])
	fv := object.NewFromExtendedSpatialIDToQuadkeyAndVerticalID(iv[11], l2, iv[13], float64(iv[14]), float64(iv[15]))
	init := []any{iv[0], iv[1], iv[2], iv[3], iv[4], iv[5], iv[6], a1, iv[8], iv[9], iv[10], iv[11], a2, iv[13], iv[14], iv[15]}
	read := func() []any {
		il1 := make([]any, 0)
		for _, p := range fa.InnerIDList() {
			il1 = append(il1, []int64{p[0], p[1]})
		}
		il2 := make([]any, 0)
		for _, p := range fv.InnerIDList() {
			il2 = append(il2, []int64{p[0], p[1]})
		}
		return []any{qv.QuadkeyZoom(), qv.Quadkey(), qv.VZoom(), qv.VIndex(), int64(qv.MaxHeight()), int64(qv.MinHeight()),
			fa.QuadkeyZoom(), il1, fa.AltitudekeyZoom(), fa.ZBaseExponent(), fa.ZBaseOffset(),
			fv.QuadkeyZoom(), il2, fv.VerticalZoom(), int64(fv.MaxHeight()), int64(fv.MinHeight())}
	}
	n := 3 + r.Intn(10)
	ops := make([]any, 0, n+1)
	obs := make([]any, 0, n+1)
	// step 0 re-writes slot 1 with its own value: the first observation is the constructors' state
	qv.SetQuadkeyZoom(iv[0])
	ops = append(ops, []any{1, iv[0]})
	obs = append(obs, read())
	for i := 0; i < n; i++ {
		k := 1 + r.Intn(16)
		v := r.In(-40, 40)
		if r.Chance(0.25) {
			v = 0
		}
		var val any = v
		switch k {
		case 1:
			qv.SetQuadkeyZoom(v)
		case 2:
			qv.SetQuadkey(v)
		case 3:
			qv.SetVZoom(v)
		case 4:
			qv.SetVIndex(v)
		case 5:
			qv.SetMaxHeight(float64(v))
		case 6:
			qv.SetMinHeight(float64(v))
		case 7:
			fa.SetQuadkeyZoom(v)
		case 8:
			l, a := pairs(abs64(v))
			fa.SetInnerIDList(l)
			val = a
		case 9:
			fa.SetAltitudekeyZoom(v)
		case 10:
			fa.SetZBaseExponent(v)
		case 11:
			fa.SetZBaseOffset(v)
		case 12:
			fv.SetQuadkeyZoom(v)
		case 13:
			l, a := pairs(abs64(v))
			fv.SetInnerIDList(l)
			val = a
		case 14:
			fv.SetVerticalZoom(v)
		case 15:
			fv.SetMaxHeight(float64(v))
		default:
			fv.SetMinHeight(float64(v))
		}
		ops = append(ops, []any{k, val})
		obs = append(obs, read())
	}
	e := absW.ev("RegHistory", map[string]any{"init": init, "ops": ops})
	e.O = "ok"
	e.R = obs
	t.Emit(e, true)
}
