package main

// Re-execution of a recorded or generated step from its model arguments:
// used by `vh replay` (TLC-generated steps -> real code) and `vh rerun`
// (reproduce a rejected call before it is reported).

import (
	"bufio"
	"encoding/json"
	"fmt"
	"os"
)

type execFn func(t *Tracer, w Win, a map[string]any)

var execs = map[string]execFn{}

func reg(op string, f execFn) { execs[op] = f }

func decInt(v any) int64 {
	switch x := v.(type) {
	case float64:
		return int64(x)
	case json.Number:
		n, _ := x.Int64()
		return n
	case int64:
		return x
	case int:
		return int64(x)
	}
	panic(fmt.Sprintf("decInt: %T", v))
}

func decInts(v any) []int64 {
	arr := v.([]any)
	out := make([]int64, len(arr))
	for i, x := range arr {
		out[i] = decInt(x)
	}
	return out
}

func decBool(v any) bool { b, _ := v.(bool); return b }

func decID(v any) ID {
	a := decInts(v)
	return ID{a[0], a[1], a[2], a[3], a[4]}
}
func decSpID(v any) ID {
	a := decInts(v)
	return ID{H: a[0], F: a[1], X: a[2], Y: a[3], V: a[0]}
}
func decIDs(v any) []ID {
	arr, _ := v.([]any)
	out := make([]ID, len(arr))
	for i, x := range arr {
		out[i] = decID(x)
	}
	return out
}
func decSpIDs(v any) []ID {
	arr, _ := v.([]any)
	out := make([]ID, len(arr))
	for i, x := range arr {
		out[i] = decSpID(x)
	}
	return out
}

func init() {
	reg("ChangeZoomExt", func(t *Tracer, w Win, a map[string]any) {
		evChangeZoomExt(t, w, decIDs(a["ids"]), decInt(a["h"]), decInt(a["v"]))
	})
	reg("ChangeZoomSp", func(t *Tracer, w Win, a map[string]any) {
		evChangeZoomSp(t, w, decSpIDs(a["ids"]), decInt(a["z"]))
	})
	reg("HorizontalZoom", func(t *Tracer, w Win, a map[string]any) {
		evHorizontalZoom(t, w, ID{H: decInt(a["zi"]), X: decInt(a["x"]), Y: decInt(a["y"])}, decInt(a["zo"]), false)
	})
	reg("HorizontalZoomMinMax", func(t *Tracer, w Win, a map[string]any) {
		evHorizontalZoom(t, w, ID{H: decInt(a["zi"]), X: decInt(a["x"]), Y: decInt(a["y"])}, decInt(a["zo"]), true)
	})
	reg("VerticalZoom", func(t *Tracer, w Win, a map[string]any) {
		evVerticalZoom(t, w, ID{V: decInt(a["zi"]), F: decInt(a["f"])}, decInt(a["zo"]))
	})
}

// sameZoom returns the window with the vertical base zoom tied to the
// horizontal one (the single-zoom spatial-ID forms need h = v).
func (w Win) sameZoom() Win {
	if w.Abs {
		return w
	}
	w.V0 = w.H0
	nv := int64(1) << uint(w.V0)
	if w.F0 < -nv+1 {
		w.F0 = -nv + 1
	}
	if w.F0 > nv-2 {
		w.F0 = nv - 2
	}
	return w
}

func allSameZoom(ids []ID) bool {
	for _, s := range ids {
		if s.H != s.V {
			return false
		}
	}
	return true
}

func init() {
	// generated machine steps: one step exercises every real entry point
	// that implements the action
	reg("G.ChangeZoom", func(t *Tracer, w Win, a map[string]any) {
		ids, h, v := decIDs(a["ids"]), decInt(a["h"]), decInt(a["v"])
		evChangeZoomExt(t, w, ids, h, v)
		if h == v && allSameZoom(ids) {
			evChangeZoomSp(t, w.sameZoom(), ids, h)
		}
		for _, s := range ids {
			evHorizontalZoom(t, w, s, h, false)
			evHorizontalZoom(t, w, s, h, true)
			evVerticalZoom(t, w, s, v)
		}
	})
}

func readJSONUseNumber(b []byte, v any) error {
	d := json.NewDecoder(bytesReader(b))
	d.UseNumber()
	return d.Decode(v)
}

// cmdRerun re-executes one recorded event.
func cmdRerun(evPath, out string) int {
	b, err := os.ReadFile(evPath)
	if err != nil {
		fmt.Fprintln(os.Stderr, err)
		return 2
	}
	var e struct {
		Op  string         `json:"op"`
		Win string         `json:"win"`
		A   map[string]any `json:"a"`
	}
	if err := readJSONUseNumber(b, &e); err != nil {
		fmt.Fprintln(os.Stderr, err)
		return 2
	}
	f, ok := execs[e.Op]
	w, okw := ParseWin(e.Win)
	if !ok || !okw {
		fmt.Fprintln(os.Stderr, "cannot re-execute op", e.Op, e.Win)
		return 2
	}
	t := NewTracer(out)
	f(t, w, e.A)
	t.Close()
	fmt.Printf("{\"events\":%d,\"distinct_nontrivial\":%d}\n", t.N, t.nontr)
	return 0
}

// cmdReplay executes every generated step {op, a, mode} at `windows` windows.
// Steps generated in the small absolute world are replayed (i) as they are,
// in absolute coordinates, and (ii) embedded into windows of the real grid
// (base zooms up to 35 - depth, world edges, below and above ground).
func cmdReplay(gen string, windows int, seed int64, out string) int {
	fh, err := os.Open(gen)
	if err != nil {
		fmt.Fprintln(os.Stderr, err)
		return 2
	}
	defer fh.Close()
	t := NewTracer(out)
	r := NewRng(seed)
	replaySeed = seed
	sc := bufio.NewScanner(fh)
	sc.Buffer(make([]byte, 1<<20), 1<<26)
	for sc.Scan() {
		var g struct {
			Op    string         `json:"op"`
			A     map[string]any `json:"a"`
			Depth int64          `json:"depth"` // model depth the step needs
			Abs   bool           `json:"absonly"`
			Same  bool           `json:"samezoom"`
		}
		if err := readJSONUseNumber(sc.Bytes(), &g); err != nil {
			fmt.Fprintln(os.Stderr, "bad generated step:", err)
			return 2
		}
		f, ok := execs[g.Op]
		if !ok {
			fmt.Fprintln(os.Stderr, "no executor for generated op", g.Op)
			return 2
		}
		f(t, Win{Abs: true}, g.A)
		if g.Abs {
			continue
		}
		for i := 0; i < windows; i++ {
			w := r.replayWindow(i, g.Depth, g.Same)
			f(t, w, g.A)
		}
	}
	t.Close()
	fmt.Printf("{\"events\":%d,\"distinct_nontrivial\":%d}\n", t.N, t.nontr)
	return 0
}

// replayWindow: the first windows are fixed edge cases, the rest seeded.
func (r Rng) replayWindow(i int, depth int64, same bool) Win {
	maxH0 := 35 - depth
	n := int64(1) << uint(maxH0)
	fixed := []Win{
		{H0: maxH0, X0: 0, Y0: 0, V0: maxH0, F0: -1},                 // NW corner, just below ground, zoom 35 reached
		{H0: maxH0, X0: n - 1, Y0: n - 1, V0: maxH0, F0: 0},          // SE corner, ground level
		{H0: maxH0, X0: n - 1, Y0: 0, V0: 0, F0: -1},                 // NE corner, whole lower half-space
		{H0: 6, X0: 0, Y0: 63, V0: 0, F0: 0},                         // coarse window, SW corner
		{H0: 20, X0: 1<<19 - 1, Y0: 1 << 19, V0: 25 - depth, F0: -1}, // prime meridian / equator, metre zoom
		{H0: maxH0, X0: n / 2, Y0: n/2 - 1, V0: maxH0, F0: -(n / 2)}, // mid-world, deep below ground
	}
	if i < len(fixed) {
		w := fixed[i]
		if w.V0 < 0 {
			w.V0 = 0
		}
		if w.V0 == 0 {
			w.F0 = 0 // keep model indices of either sign inside the real index range
		}
		if same {
			w.V0 = w.H0
			nv := int64(1) << uint(w.V0)
			if w.F0 < -nv {
				w.F0 = -nv
			}
		}
		return w
	}
	for {
		w := r.randomWindow(depth, depth, same)
		if !w.Abs {
			return w
		}
	}
}
