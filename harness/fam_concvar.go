package main

// C19, second stress: calls with VARYING arguments, started on a COLD process.  Every goroutine draws
// (kind, seed) pairs; the call is a deterministic function of the pair.  The reference result of each
// pair is computed afterwards by a FRESH process running the same calls one after the other
// (`vh varref`), so that neither a sequential warm-up nor state left behind by the concurrent phase can
// mask interference: first concurrent use of lazily built tables, caches pushed past their capacity
// by thousands of distinct keys, many goroutines inside one function at once.

import (
	"encoding/json"
	"fmt"
	"os"
	"os/exec"
	"sync"

	"github.com/trajectoryjp/spatial_id_go/v4/common/enum"
	"github.com/trajectoryjp/spatial_id_go/v4/common/object"
	"github.com/trajectoryjp/spatial_id_go/v4/detector"
	"github.com/trajectoryjp/spatial_id_go/v4/integrate"
	"github.com/trajectoryjp/spatial_id_go/v4/operated"
	"github.com/trajectoryjp/spatial_id_go/v4/shape"
	"github.com/trajectoryjp/spatial_id_go/v4/transform"
)

const varKinds = 14

// runVar performs the call named by (kind, seed); the result is canonical (sorted where a set).
func runVar(kind int, seed int64) []string {
	r := NewRng(seed)
	w := Win{Abs: true}
	z := r.In(3, 24)
	n := int64(1) << uint(z)
	// a third of the voxels lie on an edge of the world (first / last column or row, lowest / highest layer): calls that
	// wrap around it take other paths, and concurrent callers do so at different zooms
	id := func() ID {
		x, y, f := r.In(0, n-1), r.In(0, n-1), r.In(-n, n-1)
		if r.Chance(0.3) {
			x = r.Pick(0, n-1)
		}
		if r.Chance(0.3) {
			y = r.Pick(0, n-1)
		}
		if r.Chance(0.15) {
			f = r.Pick(-n, n-1)
		}
		return ID{z, x, y, z, f}
	}
	ids := func(k int) []string {
		out := make([]string, k)
		for i := range out {
			out[i] = id().String()
		}
		return out
	}
	pt := func() *object.Point {
		p, _ := object.NewPoint(-179+358*r.Float64(), -84+168*r.Float64(), 2000*r.Float64()-100)
		return p
	}
	_ = w
	switch kind {
	case 0:
		return sorted([]string{operated.GetShiftingSpatialID(id().String(), r.In(-5, 5), r.In(-5, 5), r.In(-5, 5))}, nil)
	case 1:
		return sorted(integrate.ChangeExtendedSpatialIdsZoom(ids(3), z+r.In(-2, 1), z+r.In(-2, 1)))
	case 2:
		ps, err := shape.GetPointOnExtendedSpatialId(id().String(), enum.Vertex)
		return sorted(pointStrings(ps), err)
	case 3:
		return sorted(shape.GetExtendedSpatialIdsOnPoints([]*object.Point{pt(), pt()}, r.In(0, 35), r.In(0, 35)))
	case 4:
		o, err := object.NewExtendedSpatialID(id().String())
		if err != nil {
			return sorted(nil, err)
		}
		return sorted([]string{o.ID()}, nil)
	case 5:
		g, err := transform.ConvertExtendedSpatialIDsToQuadkeysAndVerticalIDs(ids(2), maxI(1, z-1), z, 0, 0)
		return sorted(pairStrings(g), err)
	case 6:
		zz := r.In(18, 24)
		nn := int64(1) << uint(zz)
		s := ID{zz, r.In(0, nn-1), r.In(nn/4, 3*nn/4), zz, r.In(0, 50)}.String()
		h, v, err := transform.FitClearanceAroundExtendedSpatialID(s, float64(r.In(0, 40)))
		return sorted([]string{fmt.Sprint(h, v)}, err)
	case 7:
		b, err := detector.CheckExtendedSpatialIdsArrayOverlap(ids(3), ids(3))
		return sorted([]string{fmt.Sprint(b)}, err)
	case 8:
		p := id()
		var in []string
		for _, c := range children(p) {
			if r.Chance(0.9) {
				in = append(in, c.String())
			}
		}
		return sorted(integrate.MergeExtendedSpatialIds(in, p.H, p.V))
	case 9:
		p0 := pt()
		p1, _ := object.NewPoint(p0.Lon()+1e-4*r.Float64(), p0.Lat()+1e-4*r.Float64(), p0.Alt()+10*r.Float64())
		if p1 == nil {
			p1 = p0
		}
		return sorted(shape.GetExtendedSpatialIdsOnLine(p0, p1, r.In(14, 20), r.In(14, 22)))
	case 10:
		pp, err := shape.ConvertPointListToProjectedPointList([]*object.Point{pt(), pt()}, 3857)
		out := []string{}
		for _, q := range pp {
			out = append(out, fmt.Sprintf("%x/%x/%x", q.X, q.Y, q.Alt))
		}
		if err != nil {
			return []string{"error"}
		}
		return out
	case 11:
		return sorted(operated.GetNspatialIdsAroundVoxcels(ids(2), r.In(0, 1), r.In(0, 1)))
	case 12:
		a, b, err := transform.ConvertZToMinMaxAltitudekey(r.In(-100, 100), r.In(10, 25), r.In(10, 30), r.In(20, 27), r.In(0, 5000))
		return sorted([]string{fmt.Sprint(a, b)}, err)
	default: // a refused call with a varying malformed ID
		bad := id().String() + string(rune('a'+r.Intn(20)))
		if r.Chance(0.5) {
			return sorted([]string{operated.GetShiftingSpatialID(bad, 1, 0, 0)}, nil)
		}
		return sorted(integrate.ChangeExtendedSpatialIdsZoom([]string{bad}, z, z))
	}
}

type varCall struct {
	Kind int   `json:"kind"`
	Seed int64 `json:"seed"`
}

// cmdVarRef: the reference process.
func cmdVarRef(in, out string) int {
	b, err := os.ReadFile(in)
	if err != nil {
		fmt.Fprintln(os.Stderr, err)
		return 2
	}
	var calls []varCall
	if err := json.Unmarshal(b, &calls); err != nil {
		fmt.Fprintln(os.Stderr, err)
		return 2
	}
	res := make([][]string, len(calls))
	for i, c := range calls {
		res[i] = runVar(c.Kind, c.Seed)
	}
	ob, _ := json.Marshal(res)
	if err := os.WriteFile(out, ob, 0o644); err != nil {
		fmt.Fprintln(os.Stderr, err)
		return 2
	}
	return 0
}

// driveConcVar: the concurrent phase on a cold process, then the reference process.
func driveConcVar(t *Tracer, r Rng, n int) {
	G := 16
	if r.Chance(0.5) {
		G = 64 // many goroutines inside one function at once
	}
	rounds := n / G
	if rounds < 1 {
		rounds = 1
	}
	calls := make([][]varCall, G)
	got := make([][][]string, G)
	seeds := make([]int64, G)
	for g := range seeds {
		seeds[g] = r.Int63()
	}
	// herd rounds first (the process is still cold): ALL goroutines issue the SAME fresh call at the same moment - many
	// clients asking for the same thing right after start-up - so that several of them are inside one first-time
	// computation of one key together
	herd := rounds / 4
	for h := 0; h < herd; h++ {
		c := varCall{r.Intn(varKinds), r.Int63()}
		if h%3 == 0 {
			c.Kind = 6 // the expensive ones more often: their first computation takes longest
		}
		res := make([][]string, G)
		var hw sync.WaitGroup
		gate := make(chan struct{})
		for g := 0; g < G; g++ {
			hw.Add(1)
			go func(g int) {
				defer hw.Done()
				<-gate
				res[g] = runVar(c.Kind, c.Seed)
			}(g)
		}
		close(gate)
		hw.Wait()
		for g := 0; g < G; g++ {
			calls[g] = append(calls[g], c)
			got[g] = append(got[g], res[g])
		}
	}
	var wg sync.WaitGroup
	start := make(chan struct{})
	for g := 0; g < G; g++ {
		wg.Add(1)
		go func(g int) {
			defer wg.Done()
			rr := NewRng(seeds[g])
			<-start
			for k := 0; k < rounds; k++ {
				c := varCall{rr.Intn(varKinds), rr.Int63()}
				if rr.Chance(0.2) && k > 0 { // some calls are shared between goroutines (same keys at the same time)
					c = varCall{rr.Intn(varKinds), int64(k % 7)}
				}
				calls[g] = append(calls[g], c)
				got[g] = append(got[g], runVar(c.Kind, c.Seed))
			}
		}(g)
	}
	close(start)
	wg.Wait()
	var flat []varCall
	for g := range calls {
		flat = append(flat, calls[g]...)
	}
	dir, err := os.MkdirTemp("", "varref")
	if err != nil {
		fmt.Fprintln(os.Stderr, err)
		os.Exit(2)
	}
	defer os.RemoveAll(dir)
	inF, outF := dir+"/calls.json", dir+"/ref.json"
	b, _ := json.Marshal(flat)
	os.WriteFile(inF, b, 0o644)
	exe, _ := os.Executable()
	cmd := exec.Command(exe, "varref", "-in", inF, "-out", outF)
	cmd.Stderr = os.Stderr
	if err := cmd.Run(); err != nil {
		fmt.Fprintln(os.Stderr, "reference process failed:", err)
		os.Exit(2)
	}
	rb, _ := os.ReadFile(outF)
	var ref [][]string
	if err := json.Unmarshal(rb, &ref); err != nil || len(ref) != len(flat) {
		fmt.Fprintln(os.Stderr, "reference process returned garbage")
		os.Exit(2)
	}
	i := 0
	for g := range calls {
		for k, c := range calls[g] {
			emitConc(t, "varying", fmt.Sprintf("kind%d", c.Kind), ref[i], got[g][k], map[string]any{"g": g, "seq": k, "seed": fmt.Sprint(c.Seed)})
			i++
		}
	}
}

func init() { families["concvar"] = driveConcVar }
