package main

// gamma / alpha: the only floating-point code of the harness (DESIGN.md 1.4).
// gamma builds real coordinates from lattice points; alpha abstracts returned
// coordinates back to lattice numerators.  Neither computes a voxel index.

import (
	"fmt"
	"math"
)

const latLimit = 85.0511287798

// Pt is a model lattice point <<k, U, W, ka, A, lim>>.
type Pt struct{ K, U, W, KA, A, Lim int64 }

func (p Pt) Arr() []int64 { return []int64{p.K, p.U, p.W, p.KA, p.A, p.Lim} }

func gammaLon(ureal, K int64) float64 {
	return math.Ldexp(float64(ureal)*360, -int(K)) - 180
}

// gammaLat: inverse Mercator of the row fraction wreal / 2^K (float64).
func gammaLat(wreal, K int64) float64 {
	w := math.Ldexp(float64(wreal), -int(K))
	return math.Atan(math.Sinh(math.Pi*(1-2*w))) * 180 / math.Pi
}

func gammaAlt(areal, KA int64) float64 { return math.Ldexp(float64(areal), int(25-KA)) }

// realPoint maps a model lattice point to real (lon, lat, alt).
func (w Win) realPoint(p Pt) (lon, lat, alt float64) {
	K := w.H0 + p.K
	n := int64(1) << uint(K)
	u := w.X0<<uint(p.K) + p.U
	if !w.Abs {
		if u != n { // keep the east edge as longitude +180
			u = ((u % n) + n) % n
		}
	}
	lon = gammaLon(u, K)
	switch p.Lim {
	case 1:
		lat = latLimit
	case -1:
		lat = -latLimit
	default:
		lat = gammaLat(w.Y0<<uint(p.K)+p.W, K)
	}
	alt = gammaAlt(w.F0<<uint(p.KA)+p.A, w.V0+p.KA)
	return
}

// alphaLon returns the numerator of lon at depth K (real), or ok=false when
// lon is not exactly a lattice longitude of that depth.
func alphaLon(lon float64, K int64) (int64, bool) {
	f := math.Ldexp((lon+180)/360, int(K))
	u := math.Round(f)
	if u < 0 || u > math.Ldexp(1, int(K)) {
		return 0, false
	}
	// the lattice longitudes are exactly representable and the library's formula is exact; an equally correct
	// formula may differ in the last bits, so closeness far below any cell size (1e-12 deg = 1e-4 of the
	// finest cell) is what is asked, not bit equality (shared faces are compared bit for bit separately)
	if math.Abs(gammaLon(int64(u), K)-lon) > 1e-12 {
		return 0, false
	}
	return int64(u), true
}

// latTol: SetLat truncates to 1e-10 degrees; a few ulp of slack at |lat| <= 90.
const latTol = 1e-10 + 6e-14

func mercW(lat float64) float64 {
	r := lat * math.Pi / 180
	return (1 - math.Asinh(math.Tan(r))/math.Pi) / 2
}

// alphaLat returns the row-boundary numerator at depth K that lat names
// (within latTol), or ok=false ("offgrid").
func alphaLat(lat float64, K int64) (int64, bool) {
	wf := math.Ldexp(mercW(lat), int(K))
	wr := math.Round(wf)
	n := math.Ldexp(1, int(K))
	for _, c := range []float64{wr, wr - 1, wr + 1} {
		if c < 0 || c > n {
			continue
		}
		if math.Abs(gammaLat(int64(c), K)-lat) <= latTol {
			return int64(c), true
		}
	}
	return 0, false
}

func alphaAlt(alt float64, KA int64) (int64, bool) {
	a := math.Ldexp(alt, int(KA-25))
	if math.Abs(a-math.Round(a)) > 1e-6 || math.Abs(a) > math.Ldexp(1, 40) { // (1e-6 of a layer)
		return 0, false
	}
	return int64(math.Round(a)), true
}

// projPoint abstracts a returned coordinate triple to a model lattice point of
// depth (k, ka) relative to the window.
func (w Win) projPoint(lon, lat, alt float64, k, ka int64) (Pt, string) {
	K, KA := w.H0+k, w.V0+ka
	u, ok := alphaLon(lon, K)
	if !ok {
		return Pt{}, fmt.Sprintf("offgrid lon %v at depth %d", lon, K)
	}
	wv, ok := alphaLat(lat, K)
	if !ok {
		return Pt{}, fmt.Sprintf("offgrid lat %.13f at depth %d", lat, K)
	}
	a, ok := alphaAlt(alt, KA)
	if !ok {
		return Pt{}, fmt.Sprintf("offgrid alt %v at depth %d", alt, KA)
	}
	p := Pt{K: k, KA: ka}
	if w.Abs {
		p.U, p.W = u, wv
	} else {
		n := int64(1) << uint(K)
		p.U = centred(u-w.X0<<uint(k), n)
		if u == n && w.X0<<uint(k)+(int64(1)<<uint(k)) == n {
			p.U = int64(1) << uint(k) // east world edge reported as +180
		}
		p.W = wv - w.Y0<<uint(k)
	}
	p.A = a - w.F0<<uint(ka)
	if abs64(p.U) >= farLimit || abs64(p.W) >= farLimit || abs64(p.A) >= farLimit {
		return p, "far point"
	}
	return p, ""
}

func hexTriple(lon, lat, alt float64) string {
	return fmt.Sprintf("%016x/%016x/%016x", math.Float64bits(lon), math.Float64bits(lat), math.Float64bits(alt))
}
