package main

// C16: results depend only on the input set.  Every set-valued operation is
// called repeatedly on the same arguments, on permuted and on duplicated input
// lists, and under imposed map-iteration orders (verif hook); TLC compares
// the result sets (TraceOps.tla, X_Determ).  Results are logged as the raw
// strings the library returned.

import (
	"fmt"
	"math"
	"sort"

	"github.com/trajectoryjp/spatial_id_go/v4/common"
	"github.com/trajectoryjp/spatial_id_go/v4/common/object"
	"github.com/trajectoryjp/spatial_id_go/v4/detector"
	"github.com/trajectoryjp/spatial_id_go/v4/integrate"
	"github.com/trajectoryjp/spatial_id_go/v4/operated"
	"github.com/trajectoryjp/spatial_id_go/v4/shape"
	"github.com/trajectoryjp/spatial_id_go/v4/transform"
)

func permuted(r Rng, ss []string) []string {
	out := append([]string(nil), ss...)
	r.Shuffle(len(out), func(i, j int) { out[i], out[j] = out[j], out[i] })
	return out
}

func duplicated(r Rng, ss []string) []string {
	out := append([]string(nil), ss...)
	for k := 1 + r.Intn(3); k > 0 && len(ss) > 0; k-- {
		out = append(out, ss[r.Intn(len(ss))])
	}
	r.Shuffle(len(out), func(i, j int) { out[i], out[j] = out[j], out[i] })
	return out
}

var orderKinds = []string{"identity", "reverse", "rotate1", "rotateHalf", "evenOdd"}

func orderHook(kind string) func(n int) []int {
	return func(n int) []int {
		p := make([]int, n)
		for i := range p {
			switch kind {
			case "reverse":
				p[i] = n - 1 - i
			case "rotate1":
				p[i] = (i + 1) % n
			case "rotateHalf":
				p[i] = (i + n/2) % n
			default:
				p[i] = i
			}
		}
		if kind == "evenOdd" {
			k := 0
			for i := 0; i < n; i += 2 {
				p[k] = i
				k++
			}
			for i := 1; i < n; i += 2 {
				p[k] = i
				k++
			}
		}
		if kind == "sorted" {
			return nil
		}
		return p
	}
}

// evDeterm runs f on the original, permuted and duplicated argument list, twice
// each for the original, and under every imposed order.
func evDeterm(t *Tracer, r Rng, name string, dedup, listInput bool, args []string, f func(in []string) ([]string, error), desc map[string]any) {
	runs := []any{}
	labels := []string{}
	kept := true
	bad := ""
	call := func(label string, in []string) {
		snap := append([]string(nil), in...)
		in = spare(in)
		o, res := guard(func() (any, error) { return f(in) })
		if !intact(in, snap) {
			kept = false
		}
		if o != "ok" {
			bad = "outcome " + o + " in run " + label
			return
		}
		out := append([]string(nil), strs(res)...)
		for i := range strs(res) { // the result belongs to the caller: overwriting it must not change later answers
			strs(res)[i] = "overwritten by the caller"
		}
		runs = append(runs, out)
		labels = append(labels, label)
	}
	call("first", append([]string(nil), args...))
	call("again", append([]string(nil), args...))
	if listInput {
		call("permuted", permuted(r, args))
		call("duplicated", duplicated(r, args))
	}
	if hooksBuilt {
		for _, k := range orderKinds {
			setOrderHook(orderHook(k))
			call("order:"+k, append([]string(nil), args...))
			if listInput && k == "reverse" {
				call("order:reverse+permuted", permuted(r, args))
			}
		}
		setOrderHook(nil)
	}
	e := absW.ev("Determ", map[string]any{"fn": name, "dedup": dedup, "kept": kept, "labels": labels})
	e.O = "ok"
	e.Bad = bad
	e.Real = desc
	e.R = runs
	t.Emit(e, true)
}

func pairStrings(gs []*object.FromExtendedSpatialIDToQuadkeyAndVerticalID) []string {
	out := []string{}
	for _, g := range gs {
		for _, p := range g.InnerIDList() {
			out = append(out, fmt.Sprintf("%d/%d:%d/%d", g.QuadkeyZoom(), p[0], g.VerticalZoom(), p[1]))
		}
	}
	return out
}

func driveDeterm(t *Tracer, r Rng, n int) {
	// regression input of repaired defect D13 (corridor verdict depended on the measurement order)
	{
		fb := math.Float64frombits
		p0, e0 := object.NewPoint(fb(0xc039804da120a1c8), fb(0xc049bf0496a6c475), fb(0x4160096a9c768ae0))
		p1, e1 := object.NewPoint(fb(0xc039804d9f908f20), fb(0xc049bf0496a6c475), fb(0x4160096a9c768ae0))
		if e0 == nil && e1 == nil {
			evDeterm(t, r, "GetExtendedSpatialIdsWithinRadiusOfLine", true, false, nil, func(in []string) ([]string, error) {
				return transform.GetExtendedSpatialIdsWithinRadiusOfLine(p0, p1, 0.0030265520390968877, 33, 26, false)
			}, map[string]any{"case": "D13 regression"})
		}
	}
	for i := 0; i < n; i++ {
		hD, vD := r.In(0, 10), r.In(0, 10)
		w := r.randomWindow(hD, vD, false)
		ids := w.embedExtList(r.randomIDList(w, hD, vD, 5, false))
		h, v := w.H0+r.In(0, hD), w.V0+r.In(0, vD)
		switch r.Intn(14) {
		case 12, 13:
			// the exported set helpers every operation above is built on, called the way a
			// caller holding sub-slices of longer lists would
			other := w.embedExtList(r.randomIDList(w, hD, vD, 4, false))
			if len(ids) > 0 && r.Chance(0.5) {
				other = append(other, ids[r.Intn(len(ids))])
			}
			name := []string{"Union", "Unique", "Intersect", "Difference"}[r.Intn(4)]
			evDeterm(t, r, "common."+name, name == "Union" || name == "Unique", true, ids, func(in []string) ([]string, error) {
				switch name {
				case "Union":
					return common.Union(in, other), nil
				case "Unique":
					return common.Unique(in), nil
				case "Intersect":
					return common.Unique(common.Intersect(in, other)), nil
				}
				return common.Unique(common.Difference(in, other)), nil
			}, map[string]any{"l1": ids, "l2": other})
		case 0:
			mids := r.randomIDList(w, hD, vD, 4, false)
			if zoomCost(mids, h-w.H0, v-w.V0) > 3000 {
				continue
			}
			in := w.embedExtList(mids)
			evDeterm(t, r, "ChangeExtendedSpatialIdsZoom", true, true, in, func(in []string) ([]string, error) {
				return integrate.ChangeExtendedSpatialIdsZoom(in, h, v)
			}, map[string]any{"ids": in, "h": h, "v": v})
		case 1:
			mh, mv := r.In(0, 4), r.In(0, 4)
			ww := r.randomWindow(mh+3, mv+3, false)
			cand := ww.embedExtList(r.mergeCandidates(ww, mh, mv, r.In(1, 2), false))
			evDeterm(t, r, "MergeExtendedSpatialIds", true, true, cand, func(in []string) ([]string, error) {
				return integrate.MergeExtendedSpatialIds(in, ww.H0+mh, ww.V0+mv)
			}, map[string]any{"ids": cand, "h": ww.H0 + mh, "v": ww.V0 + mv})
		case 2:
			hl, vl := r.In(0, 3), r.In(0, 3)
			evDeterm(t, r, "GetNspatialIdsAroundVoxcels", true, true, ids, func(in []string) ([]string, error) {
				return operated.GetNspatialIdsAroundVoxcels(in, hl, vl)
			}, map[string]any{"ids": ids, "hl": hl, "vl": vl})
		case 3:
			id := ids[0]
			evDeterm(t, r, "Get26spatialIdsAroundVoxel", false, false, []string{id}, func(in []string) ([]string, error) {
				return operated.Get26spatialIdsAroundVoxel(in[0]), nil
			}, map[string]any{"id": id})
		case 4, 5:
			lon0, lat0, alt0, lon1, lat1, alt1, H, V := r.lineCase()
			p0, e0 := object.NewPoint(lon0, lat0, alt0)
			p1, e1 := object.NewPoint(lon1, lat1, alt1)
			if e0 != nil || e1 != nil {
				continue
			}
			probe, err := shape.GetExtendedSpatialIdsOnLine(p0, p1, H, V)
			if err != nil || len(probe) > 60 {
				continue
			}
			d := map[string]any{"p0": hexTriple(lon0, lat0, alt0), "p1": hexTriple(lon1, lat1, alt1), "H": H, "V": V}
			if r.Chance(0.5) || H < 5 {
				evDeterm(t, r, "GetExtendedSpatialIdsOnLine", true, false, nil, func(in []string) ([]string, error) {
					return shape.GetExtendedSpatialIdsOnLine(p0, p1, H, V)
				}, d)
			} else {
				// corridor: keep to mid latitudes and a modest radius (see fam_corridor.go)
				if math.Abs(p0.Lat()) > 75 || math.Abs(p1.Lat()) > 75 || len(probe) > 25 {
					continue
				}
				width := 2 * math.Pi * 6378137 * math.Cos(p0.Lat()*math.Pi/180) / math.Ldexp(1, int(H))
				radius := width * (0.3 + r.Float64()*1.5)
				skip := r.Chance(0.5)
				d["radius"], d["skip"] = radius, skip
				evDeterm(t, r, "GetExtendedSpatialIdsWithinRadiusOfLine", true, false, nil, func(in []string) ([]string, error) {
					return transform.GetExtendedSpatialIdsWithinRadiusOfLine(p0, p1, radius, H, V, skip)
				}, d)
			}
		case 6:
			other := w.embedExtList(r.randomIDList(w, hD, vD, 4, false))
			evDeterm(t, r, "CheckExtendedSpatialIdsArrayOverlap", false, true, ids, func(in []string) ([]string, error) {
				b, err := detector.CheckExtendedSpatialIdsArrayOverlap(in, other)
				return []string{fmt.Sprint(b)}, err
			}, map[string]any{"A": ids, "B": other})
		case 7:
			d := r.In(1, 20)
			tw := r.treeWindow(d)
			a, b := []ID{}, []ID{}
			for k := 1 + r.Intn(4); k > 0; k-- {
				a = append(a, r.treeID(tw, d))
			}
			for k := 1 + r.Intn(4); k > 0; k-- {
				b = append(b, r.treeID(tw, d))
			}
			if r.Chance(0.5) {
				b = append(b, r.relativeAt(a[0], minI(d, a[0].H+1), minI(d, a[0].H+1)))
				b[len(b)-1].V = b[len(b)-1].H
			}
			ra, rb := tw.embedSpList(a), tw.embedSpList(b)
			evDeterm(t, r, "CheckSpatialIdsArrayOverlap", false, true, ra, func(in []string) ([]string, error) {
				bb, err := detector.CheckSpatialIdsArrayOverlap(in, rb)
				return []string{fmt.Sprint(bb)}, err
			}, map[string]any{"A": ra, "B": rb})
		case 8:
			vw := r.vWindow(8)
			hz, vz := r.In(1, 31), vw.V0+r.In(0, 8)
			bs := []string{}
			hs, vs := []int64{}, []int64{}
			for k := 1 + r.Intn(4); k > 0; k-- {
				b := r.randomBID(vw, maxI(0, hz-2), 35, 8)
				hs, vs = append(hs, b.H), append(vs, vw.V0+b.V)
				bs = append(bs, vw.realBID(b).String())
			}
			if qkCost(hs, vs, hz, vz) > 1500 {
				continue
			}
			evDeterm(t, r, "ConvertExtendedSpatialIDsToQuadkeysAndVerticalIDs", true, true, bs, func(in []string) ([]string, error) {
				g, err := transform.ConvertExtendedSpatialIDsToQuadkeysAndVerticalIDs(in, hz, vz, 0, 0)
				return pairStrings(g), err
			}, map[string]any{"ids": bs, "hz": hz, "vz": vz})
		case 9:
			hz, vz := r.In(0, 35), r.In(0, 20)
			qs := []*object.QuadkeyAndVerticalID{}
			keys := []string{}
			hs, vs := []int64{}, []int64{}
			for k := 1 + r.Intn(3); k > 0; k-- {
				qz := r.In(maxI(1, minI(31, hz-2)), 31)
				x, y := r.patternedIndex(qz), r.patternedIndex(qz)
				var key int64
				for j := int64(0); j < qz; j++ {
					key = key<<2 | (2*((y>>uint(qz-1-j))&1) + (x>>uint(qz-1-j))&1)
				}
				qv := r.In(maxI(0, vz-5), 25)
				vi := r.In(-(int64(1) << uint(qv)), (int64(1)<<uint(qv))-1)
				qs = append(qs, object.NewQuadkeyAndVerticalID(qz, key, qv, vi, 0, 0))
				keys = append(keys, fmt.Sprintf("%d:%d:%d:%d", qz, key, qv, vi))
				hs, vs = append(hs, qz), append(vs, qv)
			}
			if qkCost(hs, vs, hz, vz) > 1500 {
				continue
			}
			idx := make([]string, len(qs))
			for j := range qs {
				idx[j] = fmt.Sprint(j)
			}
			evDeterm(t, r, "ConvertQuadkeysAndVerticalIDsToExtendedSpatialIDs", true, true, idx, func(in []string) ([]string, error) {
				arg := make([]*object.QuadkeyAndVerticalID, len(in))
				for j, s := range in {
					var k int
					fmt.Sscan(s, &k)
					arg[j] = qs[k]
				}
				return transform.ConvertQuadkeysAndVerticalIDsToExtendedSpatialIDs(arg, hz, vz)
			}, map[string]any{"keys": keys, "hz": hz, "vz": vz})
		default:
			E, O := r.In(15, 30), r.offset()
			ovz := r.In(10, 28)
			ts := []*object.TileXYZ{}
			desc := []string{}
			ok := true
			for k := 1 + r.Intn(3); k > 0; k-- {
				th := r.In(0, 35)
				tv := r.In(maxI(0, E-6), minI(35, E+2))
				z := r.In(0, minI((int64(1)<<uint(minI(tv, 28)))-1, 50))
				if len(ts) > 0 && r.Chance(0.4) {
					prev := ts[r.Intn(len(ts))]
					th, tv, z = prev.HZoom(), prev.VZoom(), prev.Z()+r.In(0, 1)
				}
				a, b, err := transform.ConvertAltitudekeyToMinMaxZ(z, tv, ovz, E, O)
				if err != nil || b-a > 200 {
					ok = false
					break
				}
				tile, _ := object.NewTileXYZ(th, r.patternedIndex(th), r.patternedIndex(th), tv, z)
				ts = append(ts, tile)
				desc = append(desc, fmt.Sprintf("%d/%d/%d/%d/%d", tile.HZoom(), tile.X(), tile.Y(), tile.VZoom(), tile.Z()))
			}
			if !ok {
				continue
			}
			idx := make([]string, len(ts))
			for j := range ts {
				idx[j] = fmt.Sprint(j)
			}
			evDeterm(t, r, "ConvertTileXYZsToExtendedSpatialIDs", true, true, idx, func(in []string) ([]string, error) {
				arg := make([]*object.TileXYZ, len(in))
				for j, s := range in {
					var k int
					fmt.Sscan(s, &k)
					arg[j] = ts[k]
				}
				res, err := transform.ConvertTileXYZsToExtendedSpatialIDs(arg, E, O, ovz)
				out := make([]string, len(res))
				for j, id := range res {
					out[j] = id.ID()
				}
				sort.Strings(out[:0]) // (no-op: order is irrelevant, sets are compared)
				return out, err
			}, map[string]any{"tiles": desc, "E": E, "O": O, "ovz": ovz})
		}
	}
}

func init() { families["determ"] = driveDeterm }
