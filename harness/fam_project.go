package main

// C18: projection to a planar CRS and back.  The numeric content is measured
// here (deviation from spherical Mercator on R = 6378137 m, round-trip error)
// and thresholded by the specification; list structure, altitude bits and the
// unknown-code rule are decided structurally.

import (
	"fmt"
	"math"

	"github.com/trajectoryjp/spatial_id_go/v4/common/object"
	"github.com/trajectoryjp/spatial_id_go/v4/shape"
	"github.com/wroge/wgs84"
)

const earthR = 6378137.0

// projOpt: what happens around the judged pair of calls.  preCode != 0: one unjudged call with ANOTHER supported
// CRS comes first (forward, or the reverse conversion when preInv) - the answer for `code` may not depend on which CRS
// was used before, in which direction.  invFirst (EPSG:3857 only): the reverse conversion is called FIRST, on the
// closed-form spherical-Mercator coordinates of the points, and the forward conversion after it.
type projOpt struct {
	preCode  int
	preInv   bool
	invFirst bool
}

func evProject(t *Tracer, r Rng, code int, known bool, pts []*object.Point) {
	evProjectOpt(t, r, code, known, pts, projOpt{})
}

func mercator(p *object.Point) *object.ProjectedPoint {
	return &object.ProjectedPoint{X: earthR * p.Lon() * math.Pi / 180, Y: earthR * math.Asinh(math.Tan(p.Lat()*math.Pi/180)), Alt: p.Alt()}
}

func evProjectOpt(t *Tracer, r Rng, code int, known bool, pts []*object.Point, opt projOpt) {
	maxAlt := 0.0
	for _, p := range pts {
		maxAlt = math.Max(maxAlt, math.Abs(p.Alt()))
	}
	e := absW.ev("Project", map[string]any{"code": code, "known": known, "n": len(pts),
		"maxalt": int64(math.Min(math.Ceil(maxAlt), 1<<28))}) // largest |altitude| in whole metres
	ptsHex := make([]string, len(pts))
	for i, p := range pts {
		ptsHex[i] = hexTriple(p.Lon(), p.Lat(), p.Alt())
	}
	e.A["pts"] = ptsHex
	e.A["pre"], e.A["preinv"], e.A["invfirst"] = opt.preCode, opt.preInv, opt.invFirst
	if opt.preCode != 0 { // unjudged: only its effect on the calls below matters
		guard(func() (any, error) {
			if opt.preInv {
				pl := make([]*object.ProjectedPoint, 0, len(pts))
				for _, p := range pts {
					pl = append(pl, &object.ProjectedPoint{X: 1000 * p.Lon(), Y: 1000 * p.Lat(), Alt: p.Alt()})
				}
				return shape.ConvertProjectedPointListToPointList(pl, opt.preCode)
			}
			return shape.ConvertPointListToProjectedPointList(pts, opt.preCode)
		})
	}
	var early []*object.Point
	earlyO := ""
	if opt.invFirst && code == 3857 {
		pl := make([]*object.ProjectedPoint, 0, len(pts))
		for _, p := range pts {
			pl = append(pl, mercator(p))
		}
		o, res := guard(func() (any, error) { return shape.ConvertProjectedPointListToPointList(pl, code) })
		earlyO = fmt.Sprint(o)
		early, _ = res.([]*object.Point)
	}
	desc := make([]string, len(pts))
	for i, p := range pts {
		desc[i] = hexTriple(p.Lon(), p.Lat(), p.Alt())
	}
	e.Real = map[string]any{"pts": desc}
	before := pointBits(pts)
	o, res := guard(func() (any, error) { return shape.ConvertPointListToProjectedPointList(pts, code) })
	if pointBits(pts) != before {
		e.Bad = pointsModified
	}
	e.O = o
	empty := map[string]any{"n": 0, "alt": true, "devx": []int64{}, "devy": []int64{}, "bn": 0, "balt": true, "dlon": []int64{}, "dlat": []int64{}, "backok": true}
	e.R = empty
	if o == "panic" {
		e.Bad = "panic"
		t.Emit(e, true)
		return
	}
	pp, _ := res.([]*object.ProjectedPoint)
	if o == "err" {
		if known {
			return // the CRS does not accept these points: nothing to say
		}
		t.Emit(e, true)
		return
	}
	alt := true
	devx, devy := []int64{}, []int64{}
	for i, q := range pp {
		if i < len(pts) && math.Float64bits(q.Alt) != math.Float64bits(pts[i].Alt()) {
			alt = false
		}
		if code == 3857 && i < len(pts) {
			ex := earthR * pts[i].Lon() * math.Pi / 180
			ey := earthR * math.Asinh(math.Tan(pts[i].Lat()*math.Pi/180))
			devx = append(devx, nm(q.X-ex))
			devy = append(devy, nm(q.Y-ey))
		}
	}
	bo, bres := guard(func() (any, error) { return shape.ConvertProjectedPointListToPointList(pp, code) })
	back, _ := bres.([]*object.Point)
	if earlyO != "" { // the reverse conversion was made first, from the closed form
		bo, back = earlyO, early
	}
	balt := true
	dlon, dlat := []int64{}, []int64{}
	for i, b := range back {
		if b == nil || i >= len(pts) {
			balt = false
			continue
		}
		// a CRS other than 3857 may map a point outside its area of use to coordinates the
		// reverse conversion cannot store (it then returns lat = alt = 0): such points are outside
		// "points the CRS accepts" and are not judged
		outside := code != 3857 && b.Lat() == 0 && b.Alt() == 0
		if !outside && math.Float64bits(b.Alt()) != math.Float64bits(pts[i].Alt()) {
			balt = false
		}
		if code == 3857 {
			dl := math.Abs(b.Lon() - pts[i].Lon())
			if dl > 180 {
				dl = 360 - dl // +180 and -180 name the same meridian
			}
			dlon = append(dlon, units(dl, 1e-11))
			dlat = append(dlat, units(b.Lat()-pts[i].Lat(), 1e-11))
		}
	}
	e.R = map[string]any{"n": len(pp), "alt": alt, "devx": devx, "devy": devy,
		"bn": len(back), "balt": balt, "dlon": dlon, "dlat": dlat, "backok": bo == "ok"}
	t.Emit(e, len(pts) > 0)
}

func nm(d float64) int64 { return units(d, 1e-9) }
func units(d, u float64) int64 {
	v := math.Ceil(math.Abs(d) / u)
	if v > 1e9 || math.IsNaN(v) {
		return 1 << 29
	}
	return int64(v)
}

func driveProject(t *Tracer, r Rng, n int) {
	// recorded finding D12: the EPSG:3857 result depends on the altitude
	if p, err := object.NewPoint(139.75, 35.68, -1.0e7); err == nil {
		evProject(t, r, 3857, true, []*object.Point{p})
	}
	codes := wgs84.EPSG().Codes()
	knownSet := map[int]bool{}
	for _, c := range codes {
		knownSet[c] = true
	}
	for i := 0; i < n; i++ {
		k := r.Intn(6)
		if r.Chance(0.05) {
			k = r.Intn(60)
		}
		pts := make([]*object.Point, 0, k)
		for len(pts) < k {
			lon := -180 + 360*r.Float64()
			lat := -latLimit + 2*latLimit*r.Float64()
			alt := (r.Float64()*2 - 1) * math.Ldexp(1, int(r.In(-5, 12))) // mostly within +-4 km
			if r.Chance(0.04) {
				alt = (r.Float64()*2 - 1) * math.Ldexp(1, int(r.In(13, 25))) // up to the +-2^25 m limit (finding D12)
			}
			switch r.Intn(8) {
			case 0:
				lon = float64(r.Pick(-180, 180, 0))
			case 1:
				lat = float64(r.Pick(-1, 1)) * latLimit
			case 2:
				lat = 0
			}
			p, err := object.NewPoint(lon, lat, alt)
			if err == nil {
				pts = append(pts, p)
			}
			if len(pts) > 1 && r.Chance(0.1) {
				pts = append(pts, pts[0])
			}
			if err == nil && r.Chance(0.25) {
				// a creeping run: neighbours in the list that differ by 1e-10 .. 1e-7 degrees and millimetres (dense
				// telemetry of a hovering vehicle, the corners of a zoom-35 voxel) - each has its own projection
				q := p
				for j := r.Intn(4); j >= 0; j-- {
					s := math.Pow(10, -float64(r.In(7, 10)))
					q2, e2 := object.NewPoint(q.Lon()+s*float64(r.In(-3, 3)), q.Lat()+s*float64(r.In(-3, 3)), q.Alt()+0.001*float64(r.In(-2, 2)))
					if e2 != nil {
						break
					}
					pts = append(pts, q2)
					q = q2
				}
			}
		}
		opt := projOpt{}
		if r.Chance(0.3) { // another CRS was used just before, in either direction
			opt.preCode, opt.preInv = codes[r.Intn(len(codes))], r.Chance(0.5)
			if r.Chance(0.3) {
				opt.preCode = int(r.Pick(4326, 3857, 32654, 6677, 2451))
				if !knownSet[opt.preCode] {
					opt.preCode = 0
				}
			}
		}
		lowAlt := true
		for _, p := range pts {
			lowAlt = lowAlt && math.Abs(p.Alt()) <= 4096
		}
		opt.invFirst = lowAlt && r.Chance(0.3)
		switch r.Intn(10) {
		case 0, 1, 2, 3, 4, 5:
			evProjectOpt(t, r, 3857, true, pts, opt)
		case 6, 7:
			c := codes[r.Intn(len(codes))]
			evProjectOpt(t, r, c, true, pts, opt)
		default:
			c := int(r.Pick(0, -1, 1, 999999, 3856, 4327, 12345))
			if r.Chance(0.6) { // codes that only LOOK like a supported one: same low 16 / 32 bits, negated, shifted by one digit
				k := codes[r.Intn(len(codes))]
				if r.Chance(0.5) {
					k = 3857
				}
				c = []int{k + 65536, k - 65536, k + 2*65536, k + 1<<32, -k, k * 10, k + 100000, k ^ 1<<20}[r.Intn(8)]
			}
			if knownSet[c] {
				continue
			}
			evProject(t, r, c, false, pts)
		}
	}
}

func init() {
	families["project"] = driveProject
	reg("Project", func(t *Tracer, w Win, a map[string]any) {
		arr, _ := a["pts"].([]any)
		pts := []*object.Point{}
		for _, x := range arr {
			var b [3]uint64
			s, _ := x.(string)
			if n, _ := sscanHex3(s, &b[0], &b[1], &b[2]); n != 3 {
				return
			}
			p, err := object.NewPoint(math.Float64frombits(b[0]), math.Float64frombits(b[1]), math.Float64frombits(b[2]))
			if err != nil {
				return
			}
			// NewPoint would cut an already stored latitude once more (finding D11): restore the exact value
			if p.Lat() != math.Float64frombits(b[1]) {
				return
			}
			pts = append(pts, p)
		}
		opt := projOpt{}
		if a["pre"] != nil {
			opt = projOpt{int(decInt(a["pre"])), decBool(a["preinv"]), decBool(a["invfirst"])}
		}
		evProjectOpt(t, NewRng(1), int(decInt(a["code"])), decBool(a["known"]), pts, opt)
	})
}
