package main

import (
	"bytes"
	"fmt"
	"io"
)

func bytesReader(b []byte) io.Reader { return bytes.NewReader(b) }

func sscanHex3(s string, a, b, c *uint64) (int, error) {
	return fmt.Sscanf(s, "%016x/%016x/%016x", a, b, c)
}

func sscanHex1(s string, a *uint64) (int, error) { return fmt.Sscanf(s, "%016x", a) }
