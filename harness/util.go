package main

import (
	"bytes"
	"io"
)

func bytesReader(b []byte) io.Reader { return bytes.NewReader(b) }
