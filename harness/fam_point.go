package main

// C01 (point lookup), C02 (voxel geometry), C09 (hierarchy relations).

import (
	"fmt"
	"math"
	"math/big"

	"github.com/trajectoryjp/spatial_id_go/v4/common/enum"
	"github.com/trajectoryjp/spatial_id_go/v4/common/object"
	"github.com/trajectoryjp/spatial_id_go/v4/detector"
	"github.com/trajectoryjp/spatial_id_go/v4/integrate"
	"github.com/trajectoryjp/spatial_id_go/v4/shape"
)

func ptsArr(ps []Pt) []any {
	out := make([]any, len(ps))
	for i, p := range ps {
		out[i] = p.Arr()
	}
	return out
}

// pointBits: the caller's point objects, bit by bit (nil entries skipped); the library must leave them as they are
func pointBits(ps []*object.Point) string {
	out := ""
	for _, p := range ps {
		if p != nil {
			out += hexTriple(p.Lon(), p.Lat(), p.Alt()) + " "
		}
	}
	return out
}

func clonePoints(ps []*object.Point) []*object.Point {
	out := make([]*object.Point, len(ps))
	for i, p := range ps {
		if p != nil {
			q := *p
			out[i] = &q
		}
	}
	return out
}

// pointsOwned: what a query returns belongs to the caller - after the caller has overwritten the
// returned point objects (and the slice), the same query must still give the original answer.
func pointsOwned(query func() (any, error), first []*object.Point) string {
	before := pointBits(first)
	for i, p := range first {
		if p != nil {
			p.SetAlt(-7777.25)
			_ = p.SetLon(12.5)
			_ = p.SetLat(-3.25)
		}
		if i%2 == 1 {
			first[i] = nil
		}
	}
	o, again := guard(query)
	if o != "ok" {
		return "the repeated query failed: " + o
	}
	if pointBits(again.([]*object.Point)) != before {
		return "the points returned earlier are shared with the library's state (overwriting them changed a later answer)"
	}
	return ""
}

const pointsModified = "the caller's point objects were modified"

func (w Win) realPoints(ps []Pt) ([]*object.Point, []string, bool) {
	out := make([]*object.Point, len(ps))
	desc := make([]string, len(ps))
	for i, p := range ps {
		lon, lat, alt := w.realPoint(p)
		pt, err := object.NewPoint(lon, lat, alt)
		if err != nil {
			return nil, nil, false
		}
		out[i] = pt
		desc[i] = hexTriple(lon, lat, alt)
	}
	return out, desc, true
}

func evPointsExt(t *Tracer, w Win, ps []Pt, h, v int64) {
	pts, desc, ok := w.realPoints(ps)
	if !ok {
		return // the driver produced a point outside the documented domain: not a case
	}
	before := pointBits(pts)
	o, res := guard(func() (any, error) { return shape.GetExtendedSpatialIdsOnPoints(pts, w.H0+h, w.V0+v) })
	e := w.ev("PointsExt", map[string]any{"pts": ptsArr(ps), "h": h, "v": v})
	e.O, e.Real = o, map[string]any{"pts": desc, "h": w.H0 + h, "v": w.V0 + v}
	e.R = []any{}
	if o != "panic" {
		e.R = w.projExtList(strs(res), &e.Bad)
	} else {
		e.Bad = "panic"
	}
	if pointBits(pts) != before {
		e.Bad = pointsModified
	}
	t.Emit(e, len(ps) > 0)
}

// evPointNudge: the point one floating-point step below / above a lattice point in
// longitude (du) and altitude (da).
func evPointNudge(t *Tracer, w Win, p Pt, du, da, h, v int64) {
	lon, lat, alt := w.realPoint(p)
	if alt == 0 {
		// one step from zero is a subnormal number of metres: not claimed; but zero has a sign, and
		// negative zero (what rounding a small negative height gives) is still altitude 0
		if da == -1 {
			alt = math.Copysign(0, -1)
		}
		da = 0
	}
	edge := lon == 180
	nudge := func(x float64, d int64) float64 {
		switch d {
		case -1:
			return math.Nextafter(x, math.Inf(-1))
		case 1:
			return math.Nextafter(x, math.Inf(1))
		}
		return x
	}
	lon, alt = nudge(lon, du), nudge(alt, da)
	pt, err := object.NewPoint(lon, lat, alt)
	if err != nil || math.Abs(alt) > 1<<25 {
		return // outside the documented domain: not a case
	}
	o, res := guard(func() (any, error) {
		return shape.GetExtendedSpatialIdsOnPoints([]*object.Point{pt}, w.H0+h, w.V0+v)
	})
	e := w.ev("PointNudge", map[string]any{"p": p.Arr(), "du": du, "da": da, "h": h, "v": v, "edge": edge && du == -1, "valid": true})
	e.O, e.Real = o, map[string]any{"pt": hexTriple(lon, lat, alt), "h": w.H0 + h, "v": w.V0 + v}
	e.R = []any{}
	if o != "panic" {
		for _, s := range strs(res) {
			if id, ok := ParseExt(s); ok && id.H >= 0 && id.H <= 62 {
				n := int64(1) << uint(id.H)
				if id.X < 0 || id.X >= n || id.Y < 0 || id.Y >= n {
					e.A["valid"] = false
				}
			}
		}
		e.R = w.projExtList(strs(res), &e.Bad)
	} else {
		e.Bad = "panic"
	}
	t.Emit(e, true)
}

func evPointsSp(t *Tracer, w Win, ps []Pt, z int64) {
	pts, desc, ok := w.realPoints(ps)
	if !ok {
		return
	}
	before := pointBits(pts)
	o, res := guard(func() (any, error) { return shape.GetSpatialIdsOnPoints(pts, w.H0+z) })
	e := w.ev("PointsSp", map[string]any{"pts": ptsArr(ps), "z": z})
	e.O, e.Real = o, map[string]any{"pts": desc, "z": w.H0 + z}
	e.R = []any{}
	if o != "panic" {
		e.R = w.projSpList(strs(res), &e.Bad)
	} else {
		e.Bad = "panic"
	}
	if pointBits(pts) != before {
		e.Bad = pointsModified
	}
	t.Emit(e, len(ps) > 0)
}

// latticePoint draws a lattice point whose row is decided by the model at
// horizontal zoom h (strictly inside a row, a quarter row from the borders),
// with longitude / altitude on, just below and just above cell boundaries.
func (r Rng) latticePoint(w Win, h, v int64) Pt {
	k := h + 2 + r.In(0, 3)
	if !w.Abs && w.H0 >= 18 && r.Chance(0.2) {
		// a lattice finer than 1e-10 degrees (360 / 2^46 = 5e-12): the points next to a cell
		// border are then closer to it than any tolerance the library uses for coordinates
		k = 46 - w.H0
	}
	if w.H0+k > 46 {
		k = 46 - w.H0
	}
	ka := v + r.In(0, 3)
	if w.V0+ka > 40 {
		ka = 40 - w.V0
	}
	if ka < 0 {
		ka = 0
	}
	p := Pt{K: k, KA: ka}
	nk := int64(1) << uint(k)
	// longitude: multiples of the cell size +- one lattice step
	cell := int64(1) << uint(k-h)
	x := r.edgeIn(0, (int64(1)<<uint(h))-1)
	p.U = x*cell + r.Pick(0, 0, 1, cell-1, r.In(0, cell-1))
	if r.Chance(0.08) {
		p.U = nk // east edge: lon = +180 in absolute mode / at the world edge
	}
	y := r.edgeIn(0, (int64(1)<<uint(h))-1)
	// inside the row, as close to its borders as the model still decides at this real zoom (TraceOps.LatDecidedReal)
	g := (cell + rowMarginDiv(w.H0+h) - 1) / rowMarginDiv(w.H0+h)
	p.W = y*cell + r.Pick(g, cell-g, r.In(g, cell-g), r.In(g, cell-g))
	// altitude
	var f int64
	nv := int64(1) << uint(v)
	if w.Abs || (w.V0 == 0 && w.F0 == 0) {
		f = r.edgeIn(-nv, nv-1)
		if r.Chance(0.3) {
			f = r.Pick(-1, 0, -2, 1)
		}
	} else {
		f = r.edgeIn(0, nv-1)
	}
	if ka >= v {
		cv := int64(1) << uint(ka-v)
		p.A = f*cv + r.Pick(0, 0, 1, cv-1, r.In(0, cv-1))
	} else {
		p.A = f >> uint(v-ka)
	}
	if (w.Abs || (w.V0 == 0 && w.F0 == 0)) && r.Chance(0.04) {
		p.A = r.Pick(-1, 1) * (int64(1) << uint(ka)) // |alt| = 2^25, the domain edge
	}
	return p
}

// rowMarginDiv: a lattice point's row is decided by the model when it lies at least 1/D of a row from the row's
// borders; D depends on the real zoom (see TraceOps.LatDecidedReal)
func rowMarginDiv(realH int64) int64 {
	switch {
	case realH <= 28:
		return 64
	case realH <= 31:
		return 16
	}
	return 4
}

func (w Win) touchesNorth(k int64) bool { return w.Abs || w.Y0 == 0 }
func (w Win) touchesSouth(k int64) bool { return w.Abs || w.Y0 == (int64(1)<<uint(w.H0))-1 }

// ---- C02 -------------------------------------------------------------------
func evVertex(t *Tracer, w Win, id ID, sp bool) {
	if !(w.validIDs(id)) {
		return // outside the documented domain: not a case
	}
	rid := w.E(id)
	var o string
	var res any
	op := "VertexExt"
	query := func() (any, error) { return shape.GetPointOnExtendedSpatialId(rid.String(), enum.Vertex) }
	if sp {
		op = "VertexSp"
		query = func() (any, error) { return shape.GetPointOnSpatialId(rid.Sp(), enum.Vertex) }
	}
	o, res = guard(query)
	e := w.ev(op, map[string]any{"id": id.Arr()})
	e.O, e.Real = o, map[string]any{"id": rid.String()}
	e.R = []any{}
	if o == "ok" {
		out := []any{}
		got := clonePoints(res.([]*object.Point))
		owned := pointsOwned(query, res.([]*object.Point))
		for _, p := range got {
			m, bad := w.projPoint(p.Lon(), p.Lat(), p.Alt(), id.H, id.V)
			if bad != "" {
				e.Bad = bad
				break
			}
			out = append(out, m.Arr())
		}
		if e.Bad == "" {
			e.R = out
		}
		if owned != "" {
			e.Bad = owned
		}
	} else {
		e.Bad = "outcome " + o
	}
	t.Emit(e, true)
}

func evCentre(t *Tracer, w Win, id ID, sp bool) {
	if !(w.validIDs(id)) {
		return // outside the documented domain: not a case
	}
	rid := w.E(id)
	var o string
	var res any
	op := "CentreExt"
	query := func() (any, error) { return shape.GetPointOnExtendedSpatialId(rid.String(), enum.Center) }
	if sp {
		op = "CentreSp"
		query = func() (any, error) { return shape.GetPointOnSpatialId(rid.Sp(), enum.Center) }
	}
	o, res = guard(query)
	e := w.ev(op, map[string]any{"id": id.Arr()})
	e.O, e.Real = o, map[string]any{"id": rid.String()}
	e.R = []any{}
	if o != "ok" {
		e.Bad = "outcome " + o
		t.Emit(e, true)
		return
	}
	ps := res.([]*object.Point)
	if len(ps) != 1 {
		e.Bad = "centre query returned a list of length != 1"
		t.Emit(e, true)
		return
	}
	if ps[0] != nil {
		got := clonePoints(ps)
		if owned := pointsOwned(query, ps); owned != "" {
			e.Bad = owned
			t.Emit(e, true)
			return
		}
		ps = got
	}
	c := ps[0]
	K, KA := w.H0+id.H+1, w.V0+id.V+1
	u, ok1 := alphaLon(c.Lon(), K)
	a, ok2 := alphaAlt(c.Alt(), KA)
	if !ok1 || !ok2 {
		e.Bad = "centre longitude/altitude is not the lattice midpoint"
		t.Emit(e, true)
		return
	}
	mu := u
	if !w.Abs {
		mu = centred(u-w.X0<<uint(id.H+1), int64(1)<<uint(K))
	}
	ma := a - w.F0<<uint(id.V+1)
	// latitude: midpoint (in degrees) of the north and south edges the vertex query reports
	vo, vres := guard(func() (any, error) { return shape.GetPointOnExtendedSpatialId(rid.String(), enum.Vertex) })
	dev := int64(1 << 20)
	if vo == "ok" {
		vs := vres.([]*object.Point)
		if len(vs) == 8 {
			mid := (vs[0].Lat() + vs[2].Lat()) / 2
			d := math.Abs(c.Lat()-mid) / 1e-12
			if d < 1<<20 {
				dev = int64(math.Ceil(d))
			}
		}
	}
	// converting the centre back at the same zooms
	bo, bres := guard(func() (any, error) {
		return shape.GetExtendedSpatialIdsOnPoints([]*object.Point{c}, rid.H, rid.V)
	})
	back := []any{}
	if bo == "ok" {
		back = w.projExtList(strs(bres), &e.Bad)
	} else {
		e.Bad = "centre lookup " + bo
	}
	e.R = map[string]any{"cu": []int64{id.H + 1, mu}, "ca": []int64{id.V + 1, ma}, "latdev": dev, "back": back}
	t.Emit(e, true)
}

// evFace: two voxels sharing a face report bit-identical coordinates for it.
// dir: 0 = east neighbour, 1 = south neighbour, 2 = upper neighbour.
func evFace(t *Tracer, w Win, id ID, dir int64) {
	if !(w.validIDs(id)) {
		return // outside the documented domain: not a case
	}
	nb := id
	switch dir {
	case 0:
		nb.X++
	case 1:
		nb.Y++
	default:
		nb.F++
	}
	ra, rb := w.E(id), w.E(nb)
	if ra.X+1 != rb.X && dir == 0 || ra.Y+1 != rb.Y && dir == 1 {
		return // the pair wraps around the world edge (180 vs -180): excluded by the property
	}
	if nmax := int64(1) << uint(rb.H); rb.X >= nmax || rb.Y >= nmax {
		return // no neighbour beyond the last column / row
	}
	e := w.ev("Face", map[string]any{"id": id.Arr(), "dir": dir})
	e.Real = map[string]any{"a": ra.String(), "b": rb.String()}
	hexes := func(s string) ([]string, string) {
		o, res := guard(func() (any, error) { return shape.GetPointOnExtendedSpatialId(s, enum.Vertex) })
		if o != "ok" {
			return nil, "outcome " + o
		}
		ps := res.([]*object.Point)
		if len(ps) != 8 {
			return nil, "vertex count"
		}
		out := make([]string, 8)
		for i, p := range ps {
			out[i] = hexTriple(p.Lon(), p.Lat(), p.Alt())
		}
		return out, ""
	}
	a, bad1 := hexes(ra.String())
	b, bad2 := hexes(rb.String())
	e.O = "ok"
	e.R = map[string]any{"a": a, "b": b}
	if bad1 != "" || bad2 != "" {
		e.Bad = bad1 + bad2
		e.R = map[string]any{"a": []string{}, "b": []string{}}
	}
	t.Emit(e, true)
}

// ---- C09 -------------------------------------------------------------------
// evHier: relations between real calls for an arbitrary float64 point; no
// reference value.  The window is anchored at the coarse voxel itself, so the
// coarse ID projects to <<0,0,0,0,0>>.
func evHier(t *Tracer, r Rng) {
	lon, lat, alt, h1, v1, h2, v2 := r.hierCase()
	evHierAt(t, lon, lat, alt, h1, v1, h2, v2)
}

func (r Rng) hierCase() (lon, lat, alt float64, h1, v1, h2, v2 int64) {
	lon = -180 + 360*r.Float64()
	lat = -latLimit + 2*latLimit*r.Float64()
	alt = (r.Float64()*2 - 1) * math.Ldexp(1, int(r.In(0, 25)))
	switch r.Intn(8) {
	case 0:
		alt = -alt * 1e-6
	case 1:
		lon = math.Round(lon)
	case 2:
		lat = float64(r.Pick(-1, 1)) * (latLimit - r.Float64()*1e-6)
	}
	h2, v2 = r.In(0, 35), r.In(0, 35)
	h1, v1 = r.In(h2, minI(35, h2+20)), r.In(v2, minI(35, v2+20))
	return
}

func evHierAt(t *Tracer, lon, lat, alt float64, h1, v1, h2, v2 int64) {
	pt, err := object.NewPoint(lon, lat, alt)
	if err != nil {
		return
	}
	var fine, coarse, zoomed []string
	var ov, ov2 bool
	o, _ := guard(func() (any, error) {
		var err error
		if fine, err = shape.GetExtendedSpatialIdsOnPoints([]*object.Point{pt}, h1, v1); err != nil {
			return nil, err
		}
		if coarse, err = shape.GetExtendedSpatialIdsOnPoints([]*object.Point{pt}, h2, v2); err != nil {
			return nil, err
		}
		if zoomed, err = integrate.ChangeExtendedSpatialIdsZoom(fine, h2, v2); err != nil {
			return nil, err
		}
		if ov, err = detector.CheckExtendedSpatialIdsOverlap(fine[0], coarse[0]); err != nil {
			return nil, err
		}
		ov2, err = detector.CheckExtendedSpatialIdsArrayOverlap(coarse, fine)
		return nil, err
	})
	w := Win{Abs: true}
	if c, ok := ParseExt(firstOr(coarse)); ok && o == "ok" {
		w = Win{H0: c.H, X0: c.X, Y0: c.Y, V0: c.V, F0: c.F}
	}
	e := w.ev("Hier", map[string]any{"dh": h1 - h2, "dv": v1 - v2, "pt": hexTriple(lon, lat, alt), "h2": h2, "v2": v2})
	e.O = o
	e.Real = map[string]any{"pt": hexTriple(lon, lat, alt), "fine": fine, "coarse": coarse, "h1": h1, "v1": v1, "h2": h2, "v2": v2}
	e.R = map[string]any{"fine": []any{}, "coarse": []any{}, "zoomed": []any{}, "ov": []bool{ov, ov2}}
	if o == "ok" {
		e.R = map[string]any{
			"fine":   w.projExtListNoWrap(fine, &e.Bad),
			"coarse": w.projExtListNoWrap(coarse, &e.Bad),
			"zoomed": w.projExtListNoWrap(zoomed, &e.Bad),
			"ov":     []bool{ov, ov2},
		}
	} else {
		e.Bad = "outcome " + o
	}
	t.Emit(e, h1 != h2 || v1 != v2)
}

func firstOr(s []string) string {
	if len(s) == 0 {
		return ""
	}
	return s[0]
}

// projExtListNoWrap projects relative to the window root without modular
// reduction (used when the window is anchored at a returned ID, at any zoom).
func (w Win) projExtListNoWrap(ss []string, bad *string) []any {
	out := make([]any, 0, len(ss))
	for _, s := range ss {
		id, ok := ParseExt(s)
		if !ok {
			*bad = "malformed:" + s
			continue
		}
		m := ID{H: id.H - w.H0, V: id.V - w.V0}
		if m.H < 0 || m.V < 0 || m.H > 29 || m.V > 29 {
			*bad = "far:" + s
			continue
		}
		m.X = id.X - w.X0<<uint(m.H)
		m.Y = id.Y - w.Y0<<uint(m.H)
		m.F = id.F - w.F0<<uint(m.V)
		if abs64(m.X) >= farLimit || abs64(m.Y) >= farLimit || abs64(m.F) >= farLimit {
			*bad = "far:" + s
			continue
		}
		out = append(out, m.Arr())
	}
	return out
}

// evPointInVoxel: for an ARBITRARY float64 point (not on the lattice) the voxel returned by the
// lookup must contain the point according to the library's own vertex query (whose geometry C02
// ties to the lattice): west <= lon < east, south < lat <= north (latitudes to within the 1e-10
// degree storage resolution), bottom <= alt < top.  The six comparisons are recorded; TLC requires them.
func evPointInVoxel(t *Tracer, r Rng) {
	lon := -180 + 360*r.Float64()
	lat := -latLimit + 2*latLimit*r.Float64()
	alt := (r.Float64()*2 - 1) * math.Ldexp(1, int(r.In(-8, 25)))
	switch r.Intn(8) {
	case 0:
		lon = math.Round(lon*8) / 8 // often exactly on tile boundaries of low zooms
	case 1:
		alt = math.Round(alt)
	case 2:
		alt = -math.Abs(alt)
	case 3:
		lon = float64(r.Pick(-180, 180))
	}
	h, v := r.In(0, 35), r.In(0, 35)
	pt, err := object.NewPoint(lon, lat, alt)
	if err != nil {
		return
	}
	e := absW.ev("PointInVoxel", map[string]any{"pt": hexTriple(lon, lat, alt), "h": h, "v": v})
	e.R = map[string]any{"west": false, "east": false, "south": false, "north": false, "bottom": false, "top": false, "n": 0}
	o, _ := guard(func() (any, error) {
		ids, err := shape.GetExtendedSpatialIdsOnPoints([]*object.Point{pt}, h, v)
		if err != nil {
			return nil, err
		}
		vs, err := shape.GetPointOnExtendedSpatialId(ids[0], enum.Vertex)
		if err != nil {
			return nil, err
		}
		if len(ids) != 1 || len(vs) != 8 {
			return nil, nil
		}
		const tol = 1.2e-10
		plon := pt.Lon()
		if plon == 180 {
			plon = -180 // documented fold
		}
		east := vs[1].Lon()
		e.R = map[string]any{
			"west":   vs[0].Lon() <= plon,
			"east":   plon < east || (east == 180 && plon <= 180),
			"north":  pt.Lat() <= vs[0].Lat()+tol,
			"south":  pt.Lat() > vs[2].Lat()-tol,
			"bottom": vs[0].Alt() <= pt.Alt(),
			"top":    pt.Alt() < vs[4].Alt(),
			"n":      len(ids)}
		return nil, nil
	})
	e.O = o
	t.Emit(e, true)
}

func drivePoint(t *Tracer, r Rng, n int) {
	for i := 0; i < n; i++ {
		if i%3 == 2 {
			evPointInVoxel(t, r)
			continue
		}
		if r.Chance(0.7) {
			hD, vD := r.In(0, 24), r.In(0, 24) // lattice depth h+5 must stay below 2^30
			w := r.randomWindow(hD, vD, false)
			h, v := r.In(0, hD), r.In(0, vD)
			if !w.Abs && r.Chance(0.3) {
				h, v = hD, vD // reach zoom 35
			}
			k := r.Intn(6)
			if r.Chance(0.1) {
				k = r.Intn(51)
			}
			if i%900 == 31 {
				k = int(r.Pick(255, 256, 257, 1000, 1023, 1024, 1025, r.In(300, 1000))) // a long list
			}
			ps := make([]Pt, 0, k)
			for len(ps) < k {
				if len(ps) > 0 && r.Chance(0.15) {
					ps = append(ps, ps[r.Intn(len(ps))])
					continue
				}
				p := r.latticePoint(w, h, v)
				if r.Chance(0.05) && w.touchesNorth(p.K) {
					p.Lim, p.W = 1, 0
				} else if r.Chance(0.05) && w.touchesSouth(p.K) {
					p.Lim, p.W = -1, int64(1)<<uint(p.K)
				}
				ps = append(ps, p)
			}
			evPointsExt(t, w, ps, h, v)
			if len(ps) > 0 && ps[0].Lim == 0 {
				p := ps[0]
				if r.Chance(0.5) { // onto a column / layer border of the queried zoom
					if p.K >= h {
						p.U = p.U >> uint(p.K-h) << uint(p.K-h)
					}
					if p.KA >= v {
						p.A = p.A >> uint(p.KA-v) << uint(p.KA-v)
					}
				}
				if r.Chance(0.25) {
					p.U = int64(1) << uint(p.K) // from longitude +180 (absolute mode / world edge windows)
				}
				evPointNudge(t, w, p, r.Pick(-1, -1, 0, 1), r.Pick(-1, -1, 0, 1), h, v)
			}
		} else {
			d := r.In(0, 24)
			w := r.randomWindow(d, d, true)
			z := r.In(0, d)
			k := r.Intn(5)
			ps := make([]Pt, 0, k)
			for len(ps) < k {
				ps = append(ps, r.latticePoint(w, z, z))
			}
			evPointsSp(t, w, ps, z)
		}
	}
}

func driveGeom(t *Tracer, r Rng, n int) {
	for i := 0; i < n; i++ {
		sp := r.Chance(0.3)
		hD, vD := r.In(0, 28), r.In(0, 28)
		if sp {
			vD = hD
		}
		w := r.randomWindow(hD, vD, sp)
		var id ID
		if sp {
			z := r.In(0, hD)
			if !w.Abs && r.Chance(0.4) {
				z = hD
			}
			id = r.randomIDAt(w, z, z)
		} else {
			id = r.randomID(w, hD, vD)
			if !w.Abs && r.Chance(0.4) {
				id = r.randomIDAt(w, hD, vD)
			}
		}
		switch r.Intn(4) {
		case 0:
			evVertex(t, w, id, sp)
		case 1:
			evCentre(t, w, id, sp)
		default:
			evFace(t, w, id, int64(r.Intn(3)))
		}
	}
}

func driveHier(t *Tracer, r Rng, n int) {
	for i := 0; i < n; i++ {
		evHier(t, r)
	}
}

func decPt(v any) Pt {
	a := decInts(v)
	return Pt{a[0], a[1], a[2], a[3], a[4], a[5]}
}
func decPts(v any) []Pt {
	arr, _ := v.([]any)
	out := make([]Pt, len(arr))
	for i, x := range arr {
		out[i] = decPt(x)
	}
	return out
}

func init() {
	families["point"] = drivePoint
	families["geom"] = driveGeom
	families["hier"] = driveHier
	reg("PointsExt", func(t *Tracer, w Win, a map[string]any) {
		evPointsExt(t, w, decPts(a["pts"]), decInt(a["h"]), decInt(a["v"]))
	})
	reg("PointNudge", func(t *Tracer, w Win, a map[string]any) {
		evPointNudge(t, w, decPt(a["p"]), decInt(a["du"]), decInt(a["da"]), decInt(a["h"]), decInt(a["v"]))
	})
	reg("PointsSp", func(t *Tracer, w Win, a map[string]any) {
		evPointsSp(t, w, decPts(a["pts"]), decInt(a["z"]))
	})
	reg("Hier", func(t *Tracer, w Win, a map[string]any) {
		var bl, bt, ba uint64
		s, _ := a["pt"].(string)
		if n, _ := fmt.Sscanf(s, "%016x/%016x/%016x", &bl, &bt, &ba); n != 3 {
			return
		}
		h2, v2 := decInt(a["h2"]), decInt(a["v2"])
		evHierAt(t, math.Float64frombits(bl), math.Float64frombits(bt), math.Float64frombits(ba),
			h2+decInt(a["dh"]), v2+decInt(a["dv"]), h2, v2)
	})
	reg("VertexExt", func(t *Tracer, w Win, a map[string]any) { evVertex(t, w, decID(a["id"]), false) })
	reg("VertexSp", func(t *Tracer, w Win, a map[string]any) { evVertex(t, w, decID(a["id"]), true) })
	reg("CentreExt", func(t *Tracer, w Win, a map[string]any) { evCentre(t, w, decID(a["id"]), false) })
	reg("CentreSp", func(t *Tracer, w Win, a map[string]any) { evCentre(t, w, decID(a["id"]), true) })
	reg("Face", func(t *Tracer, w Win, a map[string]any) { evFace(t, w, decID(a["id"]), decInt(a["dir"])) })
	reg("G.Lookup", func(t *Tracer, w Win, a map[string]any) {
		p, h, v := decPt(a["p"]), decInt(a["h"]), decInt(a["v"])
		if p.Lim == 1 && !w.touchesNorth(p.K) || p.Lim == -1 && !w.touchesSouth(p.K) {
			return
		}
		evPointsExt(t, w, []Pt{p}, h, v)
		if h == v {
			evPointsSp(t, w.sameZoom(), []Pt{p}, h)
		}
	})
	reg("G.Geom", func(t *Tracer, w Win, a map[string]any) {
		id := decID(a["id"])
		evVertex(t, w, id, false)
		evCentre(t, w, id, false)
		for d := int64(0); d < 3; d++ {
			evFace(t, w, id, d)
		}
		if id.H == id.V {
			evVertex(t, w.sameZoom(), id, true)
			evCentre(t, w.sameZoom(), id, true)
		}
	})
}

// ---- points that are not lattice points ------------------------------------------
// Coordinates as they come from real data (a few decimals, half metres, feet) and coordinates a
// hair away from "special" values that are not cell borders of the queried zoom (round degrees,
// the equator, longitude 0, whole metres).  The harness only ABSTRACTS such a point: it finds,
// in exact rational arithmetic, the cell of a fine lattice (depth K) that contains it; which voxel
// of zoom h that is remains the specification's business (PointToVoxel on the lattice cell).

// lonCell: floor((lon + 180) / 360 * 2^K), exactly.
func lonCell(lon float64, K int64) int64 {
	x := new(big.Rat).SetFloat64(lon)
	x.Add(x, big.NewRat(180, 1))
	x.Mul(x, new(big.Rat).SetFrac(new(big.Int).Lsh(big.NewInt(1), uint(K)), big.NewInt(360)))
	q := new(big.Int).Div(x.Num(), x.Denom()) // Euclidean division: floor for a positive denominator
	return q.Int64()
}

// latCell: the row cell of depth K containing lat, ok=false when lat is too close to a lattice line
// for float64 to tell (the Mercator row is transcendental).
func latCell(lat float64, K int64) (int64, bool) {
	wf := math.Ldexp(mercW(lat), int(K))
	fl := math.Floor(wf)
	if wf-fl < 1e-5 || fl+1-wf < 1e-5 {
		return 0, false
	}
	return int64(fl), true
}

func altCell(alt float64, KA int64) int64 { return int64(math.Floor(math.Ldexp(alt, int(KA-25)))) }

// windowAt returns a window of base zooms (H0, V0) whose origin voxel contains the point.
func windowAt(lon, lat, alt float64, H0, V0 int64) (Win, bool) {
	if H0 == 0 && V0 == 0 {
		return Win{Abs: true}, true
	}
	y, ok := latCell(lat, H0)
	if !ok {
		return Win{}, false
	}
	return Win{H0: H0, X0: lonCell(lon, H0), Y0: y, V0: V0, F0: altCell(alt, V0)}, true
}

func evPointsReal(t *Tracer, w Win, lons, lats, alts []float64, h, v int64) {
	K := minI(w.H0+28, 46)
	if K < w.H0+h+2 {
		return
	}
	KA := minI(w.V0+28, 45)
	if KA < w.V0+v {
		return
	}
	k, ka := K-w.H0, KA-w.V0
	pts := make([]*object.Point, len(lons))
	ps := make([]Pt, len(lons))
	desc := make([]string, len(lons))
	for i := range lons {
		p, err := object.NewPoint(lons[i], lats[i], alts[i])
		if err != nil {
			return
		}
		// abstract the STORED coordinates (NewPoint cuts the latitude to 1e-10 degrees)
		W, ok := latCell(p.Lat(), K)
		if !ok {
			return
		}
		m := Pt{K: k, KA: ka}
		m.U = lonCell(p.Lon(), K) - shl(w.X0, k)
		m.W = W - shl(w.Y0, k)
		m.A = altCell(p.Alt(), KA) - shl(w.F0, ka)
		if p.Lon() == 180 {
			m.U = int64(1)<<uint(K) - shl(w.X0, k) // the east edge itself
		}
		// the row must be one the model decides (a quarter row away from the borders of zoom h)
		cell := int64(1) << uint(k-h)
		gm := (cell + rowMarginDiv(w.H0+h) - 1) / rowMarginDiv(w.H0+h)
		if rr := ((m.W % cell) + cell) % cell; rr < gm || rr > cell-gm {
			return
		}
		if abs64(m.U) >= farLimit || abs64(m.W) >= farLimit || abs64(m.A) >= farLimit {
			return
		}
		pts[i], ps[i], desc[i] = p, m, hexTriple(p.Lon(), p.Lat(), p.Alt())
	}
	before := pointBits(pts)
	o, res := guard(func() (any, error) { return shape.GetExtendedSpatialIdsOnPoints(pts, w.H0+h, w.V0+v) })
	e := w.ev("PointsExt", map[string]any{"pts": ptsArr(ps), "h": h, "v": v})
	e.O, e.Real = o, map[string]any{"pts": desc, "h": w.H0 + h, "v": w.V0 + v, "given": fmt.Sprint(lons, lats, alts)}
	e.R = []any{}
	if o != "panic" {
		e.R = w.projExtList(strs(res), &e.Bad)
	} else {
		e.Bad = "panic"
	}
	if pointBits(pts) != before {
		e.Bad = pointsModified
	}
	t.Emit(e, true)
}

var specialLons = []float64{0, 1, -1, 10, 45, -45, 90, -90, 100, 135, -135, 139, 139.7, -0.5, 179, -179, -180, 60, -120, 30.48}
var specialLats = []float64{0, 1, -1, 10, 35, 35.68, 45, -45, 60, -60, 80, 85, -85, 0.5, 66.5, 23.4}
var specialAlts = []float64{math.Copysign(0, -1), 0, 0.5, -0.5, 1, 10, 30.48, 100, 304.8, 1000, -10, 8848, 0.3048, 152.4, 12.5}
var hairs = []float64{0, 0, 1e-12, -1e-12, 1e-10, -1e-10, 1e-9, -1e-9, 1e-8, -1e-8, 1e-7, -1e-7, 1e-6, -1e-6, 1e-5, -1e-4, 1e-3}

func (r Rng) realCoord3() (lon, lat, alt float64) {
	dec := func(lo, hi float64, d int) float64 {
		p := math.Pow(10, float64(d))
		return math.Round((lo+r.Float64()*(hi-lo))*p) / p
	}
	switch r.Intn(3) {
	case 0: // data with few decimals
		d := r.Intn(8)
		lon, lat = dec(-180, 180, d), dec(-85, 85, d)
		alt = float64(r.In(-200, 20000)) * []float64{1, 0.5, 0.1, 0.25, 0.3048}[r.Intn(5)]
	case 1: // a hair beside special values
		lon = specialLons[r.Intn(len(specialLons))] + hairs[r.Intn(len(hairs))]
		lat = specialLats[r.Intn(len(specialLats))] + hairs[r.Intn(len(hairs))]
		alt = specialAlts[r.Intn(len(specialAlts))] + hairs[r.Intn(len(hairs))]*1000
	default: // mixed
		lon = specialLons[r.Intn(len(specialLons))] + hairs[r.Intn(len(hairs))]
		lat = dec(-85, 85, r.Intn(7))
		alt = specialAlts[r.Intn(len(specialAlts))]
	}
	if lon < -180 {
		lon = -180
	}
	return
}

func driveRealPoints(t *Tracer, r Rng, n int) {
	for i := 0; i < n; i++ {
		lon, lat, alt := r.realCoord3()
		H0, V0 := int64(0), int64(0)
		if r.Chance(0.6) {
			H0, V0 = r.In(6, 30), r.In(0, 30)
		}
		w, ok := windowAt(lon, lat, alt, H0, V0)
		if !ok {
			continue
		}
		hmax, vmax := int64(24), int64(24)
		if !w.Abs {
			hmax, vmax = minI(35-H0, 24), minI(35-V0, 24)
		}
		h, v := r.In(0, hmax), r.In(0, vmax)
		lons, lats, alts := []float64{lon}, []float64{lat}, []float64{alt}
		for k := r.Intn(3); k > 0; k-- { // a few more points nearby, so that list order is exercised too
			lons = append(lons, lon+hairs[r.Intn(len(hairs))])
			lats = append(lats, lat+hairs[r.Intn(len(hairs))])
			alts = append(alts, alt+hairs[r.Intn(len(hairs))]*1000)
		}
		evPointsReal(t, w, lons, lats, alts, h, v)
	}
}

func init() { families["realpoints"] = driveRealPoints }
