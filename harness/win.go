package main

// Window embedding E and projection P between model coordinates (small
// integers TLC can handle) and real grid coordinates (up to 2^35).
// DESIGN.md 1.3.  Pure integer code, shared by every operation.

import (
	"fmt"
	"strconv"
	"strings"
)

// ID is an extended spatial ID in either coordinate system.
type ID struct{ H, X, Y, V, F int64 }

func (s ID) String() string {
	return fmt.Sprintf("%d/%d/%d/%d/%d", s.H, s.X, s.Y, s.V, s.F)
}
func (s ID) Sp() string { return fmt.Sprintf("%d/%d/%d/%d", s.H, s.F, s.X, s.Y) }
func (s ID) Arr() []int64 {
	return []int64{s.H, s.X, s.Y, s.V, s.F}
}
func (s ID) SpArr() []int64 { return []int64{s.H, s.F, s.X, s.Y} }

// Win is a sub-cube of the real grid rooted at voxel H0/X0/Y0/V0/F0.
// Abs means H0 = X0 = Y0 = 0: model horizontal coordinates are the real ones
// and wrap modulo 2^h.  The vertical axis never wraps.
type Win struct {
	Abs        bool
	H0, X0, Y0 int64
	V0, F0     int64
}

func (w Win) J() map[string]any {
	return map[string]any{"abs": w.Abs, "H0": w.H0, "V0": w.V0}
}

func (w Win) String() string {
	a := 0
	if w.Abs {
		a = 1
	}
	return fmt.Sprintf("%d,%d,%d,%d,%d,%d", a, w.H0, w.X0, w.Y0, w.V0, w.F0)
}

func ParseWin(s string) (Win, bool) {
	var a int
	var w Win
	n, err := fmt.Sscanf(s, "%d,%d,%d,%d,%d,%d", &a, &w.H0, &w.X0, &w.Y0, &w.V0, &w.F0)
	if err != nil || n != 6 {
		return w, false
	}
	w.Abs = a == 1
	return w, true
}

// ev starts an event for this window.
func (w Win) ev(op string, a map[string]any) Event {
	return Event{Op: op, W: w.J(), Win: w.String(), A: a}
}

const farLimit = int64(1) << 29

// E maps a model ID into the real grid.
func (w Win) E(m ID) ID {
	r := ID{H: w.H0 + m.H, V: w.V0 + m.V}
	r.X = shl(w.X0, m.H) + m.X
	r.Y = shl(w.Y0, m.H) + m.Y
	r.F = shl(w.F0, m.V) + m.F
	if !w.Abs {
		// wrap into the real index range, as a caller naming a voxel just
		// outside the world edge would have to
		if r.H >= 0 && r.H <= 62 {
			n := int64(1) << uint(r.H)
			r.X = ((r.X % n) + n) % n
			r.Y = ((r.Y % n) + n) % n
		}
	}
	return r
}

func shl(a, s int64) int64 {
	if s >= 0 {
		return a << uint(s)
	}
	return a >> uint(-s)
}

// P maps a real ID back to model coordinates (centred residues
// horizontally).  ok=false when the ID cannot be expressed near the window
// ("far"): no spec action produces that token, so the event is rejected.
func (w Win) P(r ID) (ID, bool) {
	m := ID{H: r.H - w.H0, V: r.V - w.V0}
	if w.Abs {
		m.X, m.Y = r.X, r.Y
	} else {
		if m.H < 0 || r.H > 62 {
			return m, false
		}
		n := int64(1) << uint(r.H)
		m.X = centred(r.X-shl(w.X0, m.H), n)
		m.Y = centred(r.Y-shl(w.Y0, m.H), n)
	}
	if m.V < 0 {
		if w.V0 != 0 || w.F0 != 0 {
			return m, false
		}
	}
	m.F = r.F - shl(w.F0, m.V)
	if abs64(m.X) >= farLimit || abs64(m.Y) >= farLimit || abs64(m.F) >= farLimit {
		return m, false
	}
	return m, true
}

// validIDs: every model ID names, in the real grid, a voxel of the documented domain (zooms 0..35, indices
// inside the grid, vertical index inside -2^v .. 2^v - 1).  What the library does with other inputs is not
// covered by any property, so such cases are not driven.
func (w Win) validIDs(ids ...ID) bool {
	for _, m := range ids {
		r := w.E(m)
		if r.H < 0 || r.H > 35 || r.V < 0 || r.V > 35 {
			return false
		}
		n, nv := int64(1)<<uint(r.H), int64(1)<<uint(r.V)
		if r.X < 0 || r.X >= n || r.Y < 0 || r.Y >= n || r.F < -nv || r.F >= nv {
			return false
		}
	}
	return true
}

// PH projects a horizontal component (zoom, x, y); PV a vertical one.
func (w Win) PH(h, x, y int64) (ID, bool) {
	return w.P(ID{H: h, X: x, Y: y, V: w.V0, F: w.F0})
}
func (w Win) PV(v, f int64) (ID, bool) {
	return w.P(ID{H: w.H0, X: w.X0, Y: w.Y0, V: v, F: f})
}

func centred(d, n int64) int64 {
	d = ((d % n) + n) % n
	if d >= n/2 && n > 1 {
		d -= n
	}
	return d
}

func abs64(a int64) int64 {
	if a < 0 {
		return -a
	}
	return a
}

// ParseID parses "a/b/c/d/e" strictly (decimal int64 fields).
func ParseInts(s string, n int) ([]int64, bool) {
	parts := strings.Split(s, "/")
	if len(parts) != n {
		return nil, false
	}
	out := make([]int64, n)
	for i, p := range parts {
		v, err := strconv.ParseInt(p, 10, 64)
		if err != nil {
			return nil, false
		}
		// reject non-canonical numerals ("+1", "01", "-0")
		if strconv.FormatInt(v, 10) != p {
			return nil, false
		}
		out[i] = v
	}
	return out, true
}

func ParseExt(s string) (ID, bool) {
	a, ok := ParseInts(s, 5)
	if !ok {
		return ID{}, false
	}
	return ID{a[0], a[1], a[2], a[3], a[4]}, true
}

func ParseSp(s string) (ID, bool) {
	a, ok := ParseInts(s, 4)
	if !ok {
		return ID{}, false
	}
	return ID{H: a[0], F: a[1], X: a[2], Y: a[3], V: a[0]}, true
}

// projExtList projects a list of real extended-ID strings; an entry that is
// malformed or far becomes a string token, which the spec never accepts.
// Unprojectable results are reported through the event's "bad" field (a
// string the specification requires to be empty); the list itself then stays
// well-typed for TLC.
func (w Win) projExtList(ss []string, bad *string) []any {
	out := make([]any, 0, len(ss))
	for _, s := range ss {
		id, ok := ParseExt(s)
		if !ok {
			*bad = "malformed:" + s
			continue
		}
		m, ok := w.P(id)
		if !ok {
			*bad = "far:" + s
			continue
		}
		out = append(out, m.Arr())
	}
	return out
}

func (w Win) projSpList(ss []string, bad *string) []any {
	out := make([]any, 0, len(ss))
	for _, s := range ss {
		id, ok := ParseSp(s)
		if !ok {
			*bad = "malformed:" + s
			continue
		}
		m, ok := w.P(id)
		if !ok || m.H != m.V {
			*bad = "far:" + s
			continue
		}
		out = append(out, m.SpArr())
	}
	return out
}

func (w Win) embedExtList(ms []ID) []string {
	out := make([]string, len(ms))
	for i, m := range ms {
		out[i] = w.E(m).String()
	}
	return spare(out)
}

func (w Win) embedSpList(ms []ID) []string {
	out := make([]string, len(ms))
	for i, m := range ms {
		out[i] = w.E(m).Sp()
	}
	return spare(out)
}

func idsArr(ms []ID) []any {
	out := make([]any, len(ms))
	for i, m := range ms {
		out[i] = m.Arr()
	}
	return out
}
func idsSpArr(ms []ID) []any {
	out := make([]any, len(ms))
	for i, m := range ms {
		out[i] = m.SpArr()
	}
	return out
}
