package main

// C14: the corridor around a line.  Structural acceptance by TLC (Line.tla /
// TraceOps.tla); the one numeric ingredient is `far`, a LOWER bound on the
// distance between a voxel footprint and the segment (it can fail to flag, it
// never flags wrongly).

import (
	"fmt"
	"math"
	"os"
	"time"

	"github.com/trajectoryjp/spatial_id_go/v4/common/enum"
	"github.com/trajectoryjp/spatial_id_go/v4/common/object"
	"github.com/trajectoryjp/spatial_id_go/v4/shape"
	"github.com/trajectoryjp/spatial_id_go/v4/transform"
)

type vec3 [3]float64

func ecef(lonDeg, latDeg, h float64) vec3 {
	const a = 6378137.0
	const f = 1 / 298.257223563
	e2 := f * (2 - f)
	lon, lat := lonDeg*math.Pi/180, latDeg*math.Pi/180
	n := a / math.Sqrt(1-e2*math.Sin(lat)*math.Sin(lat))
	return vec3{(n + h) * math.Cos(lat) * math.Cos(lon), (n + h) * math.Cos(lat) * math.Sin(lon), (n*(1-e2) + h) * math.Sin(lat)}
}
func sub(a, b vec3) vec3             { return vec3{a[0] - b[0], a[1] - b[1], a[2] - b[2]} }
func dot(a, b vec3) float64          { return a[0]*b[0] + a[1]*b[1] + a[2]*b[2] }
func norm(a vec3) float64            { return math.Sqrt(dot(a, a)) }
func addS(a, b vec3, s float64) vec3 { return vec3{a[0] + s*b[0], a[1] + s*b[1], a[2] + s*b[2]} }

func distPointSegment(p, a, b vec3) float64 {
	ab := sub(b, a)
	den := dot(ab, ab)
	t := 0.0
	if den > 0 {
		t = math.Max(0, math.Min(1, dot(sub(p, a), ab)/den))
	}
	return norm(sub(p, addS(a, ab, t)))
}

// farFromSegment: lower bound of the footprint-to-segment distance exceeds the radius with margin.
func farFromSegment(id string, a, b vec3, radius float64) bool {
	vs, err := shape.GetPointOnExtendedSpatialId(id, enum.Vertex)
	if err != nil || len(vs) != 8 {
		return false
	}
	var c vec3
	cs := make([]vec3, 4)
	for i := 0; i < 4; i++ {
		cs[i] = ecef(vs[i].Lon(), vs[i].Lat(), vs[i].Lat()) // the library measures at "altitude = latitude" metres
		c = addS(c, cs[i], 0.25)
	}
	circ := 0.0
	for i := 0; i < 4; i++ {
		circ = math.Max(circ, norm(sub(cs[i], c)))
	}
	lower := distPointSegment(c, a, b) - circ
	return lower > 1.02*radius+0.5
}

func relWrapped(id, base ID, mod int64) []int64 {
	r := relArr(id, base)
	if mod > 0 {
		r[0], r[1] = centred(r[0], mod), centred(r[1], mod)
	}
	return r
}

func evCorridor(t *Tracer, lon0, lat0, alt0, lon1, lat1, alt1, radius float64, H, V int64) {
	// watchdog: a layer fit that does not terminate must not hang the check (exit 3 = inconclusive)
	wd := time.AfterFunc(60*time.Second, func() {
		fmt.Fprintf(os.Stderr, "watchdog: corridor call did not return: %s %s r=%v H=%d V=%d\n",
			hexTriple(lon0, lat0, alt0), hexTriple(lon1, lat1, alt1), radius, H, V)
		os.Exit(3)
	})
	defer wd.Stop()
	p0, err0 := object.NewPoint(lon0, lat0, alt0)
	p1, err1 := object.NewPoint(lon1, lat1, alt1)
	if err0 != nil || err1 != nil {
		return
	}
	line, err := shape.GetExtendedSpatialIdsOnLine(p0, p1, H, V)
	if err != nil || len(line) == 0 || len(line) > 40 {
		return
	}
	ends, _ := shape.GetExtendedSpatialIdsOnPoints([]*object.Point{p0}, H, V)
	sv, _ := ParseExt(ends[0])
	// results are recorded relative to the start voxel as centred residues modulo the world size
	// (a corridor near longitude +-180 continues on the other side); for small worlds (H <= 12) the
	// model also measures distances circularly, for larger ones the corridor spans far less than half
	// the world and plain differences of the centred residues suffice
	world := int64(1) << uint(H)
	var mod int64
	if H <= 12 {
		mod = world
	}
	var fitH, fitV int64
	for _, id := range line {
		h, v, e := transform.FitClearanceAroundExtendedSpatialID(id, radius)
		if e != nil {
			return
		}
		fitH, fitV = maxI(fitH, h), maxI(fitV, v)
	}
	if float64(len(line))*float64(2*fitH+1)*float64(2*fitH+1)*float64(2*fitV+1) > 60000 {
		return // cost bound
	}
	e := absW.ev("Corridor", map[string]any{"fitH": fitH, "fitV": fitV, "zeroRadius": radius == 0, "mod": mod,
		"p0": hexTriple(lon0, lat0, alt0), "p1": hexTriple(lon1, lat1, alt1), "radius": fstr(radius), "H": H, "V": V})
	e.Real = map[string]any{"start": ends[0], "radius_m": radius}
	proj := func(ss []string) []any {
		out := make([]any, 0, len(ss))
		for _, s := range ss {
			id, ok := ParseExt(s)
			if !ok || id.H != H || id.V != V {
				e.Bad = "malformed or wrong zoom: " + s
				continue
			}
			out = append(out, relWrapped(id, sv, world))
		}
		return out
	}
	e.A["L"] = proj(line)
	before := pointBits([]*object.Point{p0, p1})
	om, rm := guard(func() (any, error) {
		return transform.GetExtendedSpatialIdsWithinRadiusOfLine(p0, p1, radius, H, V, false)
	})
	os_, rs := guard(func() (any, error) {
		return transform.GetExtendedSpatialIdsWithinRadiusOfLine(p0, p1, radius, H, V, true)
	})
	e.O = om
	if pointBits([]*object.Point{p0, p1}) != before {
		e.Bad = pointsModified
	}
	if om != os_ {
		e.Bad = "outcomes differ between the two flag values: " + om + "/" + os_
	}
	e.R = map[string]any{"rm": []any{}, "rs": []any{}}
	far := []any{}
	if om == "ok" && os_ == "ok" {
		onLine := map[string]bool{}
		for _, s := range line {
			onLine[s] = true
		}
		a, b := ecef(p0.Lon(), p0.Lat(), p0.Lat()), ecef(p1.Lon(), p1.Lat(), p1.Lat())
		for _, s := range strs(rm) {
			if !onLine[s] && farFromSegment(s, a, b, radius) {
				id, _ := ParseExt(s)
				far = append(far, relWrapped(id, sv, world))
			}
		}
		e.R = map[string]any{"rm": proj(strs(rm)), "rs": proj(strs(rs))}
	}
	e.A["far"] = far
	t.Emit(e, radius > 0)
}

func evCorridorInvalid(t *Tracer, r Rng) {
	p0, _ := object.NewPoint(139.0, 35.0, 10)
	p1, _ := object.NewPoint(139.001, 35.001, 20)
	radius, H, V := 5.0, int64(20), int64(20)
	kind := r.Intn(4)
	switch kind {
	case 0:
		radius = -r.Float64() - 1e-9
	case 1:
		H = r.Pick(-1, 36, 100)
	case 2:
		V = r.Pick(-1, 36)
	default:
		if r.Chance(0.5) {
			p0 = nil
		} else {
			p1 = nil
		}
	}
	skip := r.Chance(0.5)
	o, res := guard(func() (any, error) {
		return transform.GetExtendedSpatialIdsWithinRadiusOfLine(p0, p1, radius, H, V, skip)
	})
	e := absW.ev("CorridorInvalid", map[string]any{"kind": kind, "skip": skip})
	e.O = o
	e.R = len(strs(res))
	t.Emit(e, true)
}

// evFit: the layer fit of one voxel for two clearances c <= c2, next to the gaps (WGS84 chords)
// between the voxel and its copies 1, 2, ... steps east and south, measured along the voxel's
// poleward edge resp. along a meridian.  Lengths are scaled to integers below 2^26.
func evFit(t *Tracer, id ID, c, c2 float64) {
	n := int64(1) << uint(id.H)
	lonOf := func(x int64) float64 { return gammaLon(x, id.H) }
	latOf := func(y int64) float64 { return gammaLat(y, id.H) }
	// poleward edge of the voxel
	latP := latOf(id.Y)
	if math.Abs(latOf(id.Y+1)) > math.Abs(latP) {
		latP = latOf(id.Y + 1)
	}
	var gh, gv []float64
	for k := int64(1); k <= 60; k++ {
		if id.Y+k > n-1 || 2*k > n {
			break
		}
		gh = append(gh, norm(sub(ecef(lonOf(id.X+1), latP, 0), ecef(lonOf(id.X+k), latP, 0))))
		gv = append(gv, norm(sub(ecef(lonOf(id.X), latOf(id.Y+1), 0), ecef(lonOf(id.X), latOf(id.Y+k), 0))))
		if gh[len(gh)-1] > 1.5*c2 && gv[len(gv)-1] > 1.5*c2 {
			break
		}
	}
	if len(gh) < 2 || gh[len(gh)-1] <= 1.5*c2 || gv[len(gv)-1] <= 1.5*c2 {
		return // the grid runs out before the clearance is reached: the fit does not terminate there
	}
	mx := math.Max(c2, math.Max(gh[len(gh)-1], gv[len(gv)-1]))
	unit := mx / float64(int64(1)<<26)
	q := func(v float64) int64 {
		k := int64(math.Round(v / unit))
		if v > 0 && k == 0 {
			k = 1
		}
		return k
	}
	qs := func(vs []float64) []int64 {
		out := make([]int64, len(vs))
		for i, v := range vs {
			out[i] = q(v)
		}
		return out
	}
	var l1, l2 [2]int64
	o, _ := guard(func() (any, error) {
		var err error
		l1[0], l1[1], err = transform.FitClearanceAroundExtendedSpatialID(id.String(), c)
		if err != nil {
			return nil, err
		}
		l2[0], l2[1], err = transform.FitClearanceAroundExtendedSpatialID(id.String(), c2)
		return nil, err
	})
	e := absW.ev("Fit", map[string]any{"c": q(c), "c2": q(c2), "gh": qs(gh), "gv": qs(gv)})
	e.O = o
	e.Real = map[string]any{"id": id.String(), "c": fmt.Sprint(c), "c2": fmt.Sprint(c2), "unit_m": fmt.Sprint(unit)}
	e.R = []any{[]int64{l1[0], l1[1]}, []int64{l2[0], l2[1]}}
	t.Emit(e, true)
}

func driveFit(t *Tracer, r Rng, k int) {
	for i := 0; i < k; i++ {
		h := r.In(12, 30)
		n := int64(1) << uint(h)
		v := r.In(0, 35)
		nv := int64(1) << uint(minI(v, 30))
		id := ID{H: h, X: r.edgeIn(0, n-1), V: v, F: r.In(-nv, nv-1)}
		// rows between about 80 degrees north and south
		lat := (r.Float64()*2 - 1) * 80
		id.Y = int64(mercW(lat) * float64(n))
		if r.Chance(0.1) { // next to the equator, on either side
			id.Y = n/2 - r.Pick(0, 1)
		}
		width := 2 * math.Pi * 6378137 * math.Cos(lat*math.Pi/180) / float64(n)
		c := width * (0.05 + r.Float64()*3.5)
		c2 := c * (1 + r.Float64()*1.5)
		switch r.Intn(8) {
		case 0:
			c = 0
		case 1:
			c2 = c
		}
		evFit(t, id, c, c2)
	}
}

// evCorridorAxis: the corridor around a long axis-parallel segment (thousands of line voxels), radius 0
// or a fraction of a voxel; recorded relative to the start voxel.
func evCorridorAxis(t *Tracer, axis int, lon0, lat0, alt0, lon1, lat1, alt1, radius float64, H, V int64) {
	wd := time.AfterFunc(300*time.Second, func() {
		fmt.Fprintf(os.Stderr, "watchdog: long corridor call did not return\n")
		os.Exit(3)
	})
	defer wd.Stop()
	p0, err0 := object.NewPoint(lon0, lat0, alt0)
	p1, err1 := object.NewPoint(lon1, lat1, alt1)
	if err0 != nil || err1 != nil {
		return
	}
	ends, err := shape.GetExtendedSpatialIdsOnPoints([]*object.Point{p0, p1}, H, V)
	if err != nil || len(ends) != 2 {
		return
	}
	sv, ok0 := ParseExt(ends[0])
	ev, ok1 := ParseExt(ends[1])
	if !ok0 || !ok1 {
		return
	}
	d := relArr(ev, sv)
	for i := 0; i < 3; i++ {
		if i != axis-1 && d[i] != 0 {
			return
		}
	}
	// the largest layer counts the fit reports for the voxels of the run (every one of them: the fit is an
	// iterative measurement and now and then reports a layer more for one voxel than for its neighbours)
	var fitH, fitV int64
	step := int64(1)
	nn := abs64(d[axis-1])
	sgn := int64(1)
	if d[axis-1] < 0 {
		sgn = -1
	}
	for i := int64(0); i <= nn; i += step {
		id := sv
		switch axis {
		case 1:
			id.X += sgn * i
		case 2:
			id.Y += sgn * i
		default:
			id.F += sgn * i
		}
		h, v, e := transform.FitClearanceAroundExtendedSpatialID(id.String(), radius)
		if e != nil {
			return
		}
		fitH, fitV = maxI(fitH, h), maxI(fitV, v)
	}
	e := absW.ev("CorridorAxis", map[string]any{"axis": axis, "n": d[axis-1], "fitH": fitH, "fitV": fitV, "zeroRadius": radius == 0,
		"p0": hexTriple(lon0, lat0, alt0), "p1": hexTriple(lon1, lat1, alt1), "radius": fstr(radius), "H": H, "V": V})
	e.Real = map[string]any{"start": ends[0], "radius_m": radius}
	proj := func(ss []string) []any {
		out := make([]any, 0, len(ss))
		for _, s := range ss {
			id, ok := ParseExt(s)
			if !ok || id.H != H || id.V != V {
				e.Bad = "malformed or wrong zoom: " + s
				continue
			}
			out = append(out, relArr(id, sv))
		}
		return out
	}
	om, rm := guard(func() (any, error) {
		return transform.GetExtendedSpatialIdsWithinRadiusOfLine(p0, p1, radius, H, V, false)
	})
	os_, rs := guard(func() (any, error) {
		return transform.GetExtendedSpatialIdsWithinRadiusOfLine(p0, p1, radius, H, V, true)
	})
	e.O = om
	if om != os_ {
		e.Bad = "outcomes differ between the two flag values: " + om + "/" + os_
	}
	e.R = map[string]any{"rm": []any{}, "rs": []any{}}
	if om == "ok" && os_ == "ok" {
		e.R = map[string]any{"rm": proj(strs(rm)), "rs": proj(strs(rs))}
	}
	t.Emit(e, true)
}

func driveLongCorridors(t *Tracer, r Rng, k int) {
	for i := 0; i < k; i++ {
		n := r.Pick(1025, 2047, 2048, 2049, 2500, 4096, 4097, r.In(1000, 5000))
		axis := 1 + r.Intn(3)
		H, V := r.In(21, 26), r.In(21, 26)
		lon0, lat0, alt0, lon1, lat1, alt1 := r.axisSegment(axis, n, H, V)
		radius := 0.0
		if r.Chance(0.4) {
			radius = 2 * math.Pi * 6378137 * math.Cos(lat0*math.Pi/180) / math.Ldexp(1, int(H)) * (0.2 + 0.6*r.Float64())
		}
		evCorridorAxis(t, axis, lon0, lat0, alt0, lon1, lat1, alt1, radius, H, V)
	}
}

// driveRoundRadii: the way the query is used in practice - one segment (often a vertical climb or a
// level leg over whole-metre way points) asked with several whole-number clearances in a row,
// including 0; every answer must stand on its own whatever was asked before.
func driveRoundRadii(t *Tracer, r Rng, k int) {
	for i := 0; i < k; i++ {
		H := r.In(19, 24)
		V := r.In(20, 25)
		lon := float64(r.In(-179000000, 179000000)) / 1e6
		lat := float64(r.In(-70000000, 70000000)) / 1e6
		alt0 := float64(r.In(0, 40))
		var lon1, lat1, alt1 float64
		switch r.Intn(3) {
		case 0: // vertical climb
			lon1, lat1, alt1 = lon, lat, alt0+float64(r.In(5, 100))
		case 1: // level leg
			lon1, lat1, alt1 = lon+float64(r.In(-200, 200))/1e6, lat+float64(r.In(-200, 200))/1e6, alt0
		default:
			lon1, lat1, alt1 = lon+float64(r.In(-100, 100))/1e6, lat+float64(r.In(-100, 100))/1e6, alt0+float64(r.In(-20, 60))
		}
		width := 2 * math.Pi * 6378137 * math.Cos(lat*math.Pi/180) / math.Ldexp(1, int(H))
		radii := []float64{10, 0, 5, 12.5, 2.5, 20, 1, 100, 50, 2, 0.5}
		r.Shuffle(len(radii), func(a, b int) { radii[a], radii[b] = radii[b], radii[a] })
		asked := 0
		for _, rad := range radii {
			if rad > 3*width || asked == 4 {
				continue
			}
			evCorridor(t, lon, lat, alt0, lon1, lat1, alt1, rad, H, V)
			asked++
		}
		if r.Chance(0.5) {
			evCorridor(t, lon, lat, alt0, lon1, lat1, alt1, 0, H, V)
		}
	}
}

func driveCorridor(t *Tracer, r Rng, n int) {
	if n >= 20 {
		driveFit(t, r, n/4)
		driveRoundRadii(t, r, n/20)
		driveLongCorridors(t, r, 2+n/500)
	}
	for i := 0; i < n; i++ {
		if i%25 == 24 {
			evCorridorInvalid(t, r)
			continue
		}
		// (zooms 2..4 are in the property's range but the layer fit runs out of grid there for
		// any radius worth testing; they are exercised with radius 0 only)
		H, V := r.In(5, 35), r.In(0, 35)
		if r.Chance(0.3) {
			H = r.In(5, 9)
		}
		lowZoom := r.Chance(0.05)
		if lowZoom {
			H = r.In(2, 4)
		}
		nh := math.Ldexp(1, int(H))
		nv := math.Ldexp(1, int(V))
		x0 := r.Float64() * nh
		// keep away from the first / last rows: the layer fit walks south / east until the clearance is
		// reached and does not terminate when the grid runs out first (C14 excludes that)
		y0 := nh*0.1 + r.Float64()*nh*0.75
		if H <= 6 {
			y0 = nh*0.25 + r.Float64()*nh*0.35
		} else if r.Chance(0.25) {
			y0 = nh * (0.03 + r.Float64()*0.05) // high latitude: layer fits differ along the line
			if r.Chance(0.5) {
				y0 = nh * (0.9 + r.Float64()*0.04)
			}
		}
		f0 := (r.Float64()*2 - 1) * nv
		span := float64(r.In(0, 6))
		if r.Chance(0.2) {
			span = float64(r.In(7, 14))
		}
		dx, dy, df := (r.Float64()*2-1)*span, (r.Float64()*2-1)*span, (r.Float64()*2-1)*span
		if r.Chance(0.3) {
			dx = 0 // north-south line
		}
		clamp := func(v, lo, hi float64) float64 { return math.Max(lo, math.Min(hi, v)) }
		x1, y1, f1 := clamp(x0+dx, 0, nh*(1-math.Ldexp(1, -40))), clamp(y0+dy, nh*0.03, nh*0.95), clamp(f0+df, -nv, nv)
		if H <= 6 {
			y1 = clamp(y1, nh*0.25, nh*0.65)
		}
		lon0, lat0, alt0 := realCoord(x0, y0, f0, H, V)
		lon1, lat1, alt1 := realCoord(x1, y1, f1, H, V)
		lat0, lat1 = clamp(lat0, -latLimit, latLimit), clamp(lat1, -latLimit, latLimit)
		// voxel width in metres at the start latitude
		width := 2 * math.Pi * 6378137 * math.Cos(lat0*math.Pi/180) / nh
		radius := width * (0.3 + r.Float64()*2.2)
		if H <= 5 {
			radius = width * (0.1 + r.Float64()*0.6)
		}
		if r.Chance(0.12) || lowZoom {
			radius = 0
		}
		evCorridor(t, lon0, lat0, alt0, lon1, lat1, alt1, radius, H, V)
	}
}

func init() {
	families["corridor"] = driveCorridor
	reg("Corridor", func(t *Tracer, w Win, a map[string]any) {
		var b [6]uint64
		var rb uint64
		s0, _ := a["p0"].(string)
		s1, _ := a["p1"].(string)
		rs, _ := a["radius"].(string)
		n0, _ := sscanHex3(s0, &b[0], &b[1], &b[2])
		n1, _ := sscanHex3(s1, &b[3], &b[4], &b[5])
		n2, _ := sscanHex1(rs, &rb)
		if n0 != 3 || n1 != 3 || n2 != 1 {
			return
		}
		f := math.Float64frombits
		evCorridor(t, f(b[0]), f(b[1]), f(b[2]), f(b[3]), f(b[4]), f(b[5]), f(rb), decInt(a["H"]), decInt(a["V"]))
	})
}
