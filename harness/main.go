package main

import (
	"flag"
	"fmt"
	"os"
)

var families = map[string]func(t *Tracer, r Rng, n int){}

func init() { families["zoom"] = driveZoom }

func main() {
	if len(os.Args) < 2 {
		fmt.Fprintln(os.Stderr, "usage: vh drive|replay ...")
		os.Exit(2)
	}
	switch os.Args[1] {
	case "drive":
		fs := flag.NewFlagSet("drive", flag.ExitOnError)
		fam := fs.String("family", "", "driver family")
		seed := fs.Int64("seed", 1, "seed")
		n := fs.Int("n", 1000, "number of driver iterations")
		out := fs.String("out", "trace.ndjson", "output trace")
		fs.Parse(os.Args[2:])
		f, ok := families[*fam]
		if !ok {
			fmt.Fprintln(os.Stderr, "unknown family", *fam)
			os.Exit(2)
		}
		t := NewTracer(*out)
		f(t, NewRng(*seed), *n)
		t.Close()
		fmt.Printf("{\"events\":%d,\"distinct_nontrivial\":%d,\"dropped_unrepresentable\":%d}\n", t.N, t.nontr, t.dropped)
	case "rerun":
		fs := flag.NewFlagSet("rerun", flag.ExitOnError)
		ev := fs.String("event", "", "event json")
		out := fs.String("out", "one.ndjson", "output trace")
		fs.Parse(os.Args[2:])
		os.Exit(cmdRerun(*ev, *out))
	case "varref":
		fs := flag.NewFlagSet("varref", flag.ExitOnError)
		in := fs.String("in", "", "calls (json)")
		out := fs.String("out", "", "results (json)")
		fs.Parse(os.Args[2:])
		os.Exit(cmdVarRef(*in, *out))
	case "replay":
		fs := flag.NewFlagSet("replay", flag.ExitOnError)
		gen := fs.String("gen", "", "generated steps (ndjson)")
		windows := fs.Int("windows", 6, "windows per step")
		seed := fs.Int64("seed", 1, "seed")
		out := fs.String("out", "replay.ndjson", "output trace")
		fs.Parse(os.Args[2:])
		os.Exit(cmdReplay(*gen, *windows, *seed, *out))
	default:
		fmt.Fprintln(os.Stderr, "unknown command", os.Args[1])
		os.Exit(2)
	}
}
