package main

// Laws between real calls for argument ranges whose values exceed what TLC's
// 32-bit integers can carry (zoom spans above 29 levels, indices above 2^30,
// vertical shifts up to 2^60).  Both sides of each law are computed by the
// real library and recorded as strings; TLC compares them (X_Law).  No
// reference value is involved.

import (
	"fmt"
	"math"
	"sort"

	"github.com/trajectoryjp/spatial_id_go/v4/common/object"
	"github.com/trajectoryjp/spatial_id_go/v4/integrate"
	"github.com/trajectoryjp/spatial_id_go/v4/operated"
	"github.com/trajectoryjp/spatial_id_go/v4/shape"
	"github.com/trajectoryjp/spatial_id_go/v4/transform"
)

func emitLaw(t *Tracer, name string, args map[string]any, lhs, rhs []string, bad string) {
	e := absW.ev("Law", map[string]any{"law": name})
	for k, v := range args {
		e.A[k] = fmt.Sprint(v) // strings: the values may exceed TLC's integers
	}
	e.O = "ok"
	e.Bad = bad
	if lhs == nil {
		lhs = []string{}
	}
	if rhs == nil {
		rhs = []string{}
	}
	e.R = []any{lhs, rhs}
	t.Emit(e, true)
}

func sortedCopy(ss []string) []string {
	out := append([]string(nil), ss...)
	sort.Strings(out)
	return out
}

func (r Rng) fullRangeID() ID {
	h, v := r.In(0, 35), r.In(0, 35)
	if r.Chance(0.6) {
		h, v = r.In(28, 35), r.In(28, 35)
	}
	nh, nv := int64(1)<<uint(h), int64(1)<<uint(v)
	return ID{h, r.edgeIn(0, nh-1), r.edgeIn(0, nh-1), v, r.edgeIn(-nv, nv-1)}
}

// lawRowBracket: latitudes on the 1e-10-degree storage grid that bracket a row border of a coarse zoom.  Whatever
// row such a point falls into, looking it up at the coarse zoom must agree with zooming out its ID of a finer
// zoom: the row fraction of a latitude is one number, scaled by exact powers of two (C09, for latitudes the
// model itself does not decide).
func lawRowBracket(t *Tracer, r Rng) {
	hc := r.In(12, 27)
	hf := r.In(hc+1, 35)
	v := r.In(0, 35)
	n := int64(1) << uint(hc)
	var yb int64
	switch r.Intn(4) {
	case 0: // within a degree of the equator
		yb = n/2 + r.In(-n/360, n/360)
	case 1: // near the latitude limits
		yb = r.Pick(r.In(1, 1+n/200), n-1-r.In(0, n/200))
	default:
		yb = r.In(1, n-1)
	}
	if yb < 1 || yb > n-1 {
		return
	}
	border := gammaLat(yb, hc)
	lat := (math.Floor(border*1e10) + float64(r.In(-1, 2))) / 1e10
	lon := float64(r.In(-1799999, 1799999)) / 1e4
	p, err := object.NewPoint(lon, lat, float64(r.In(-100, 10000)))
	if err != nil {
		return
	}
	coarse, e1 := shape.GetExtendedSpatialIdsOnPoints([]*object.Point{p}, hc, v)
	fine, e2 := shape.GetExtendedSpatialIdsOnPoints([]*object.Point{p}, hf, v)
	if e1 != nil || e2 != nil {
		emitLaw(t, "RowBracketHierarchy", map[string]any{"lat": lat, "hc": hc, "hf": hf}, []string{"lookup failed"}, []string{"ok expected"}, "")
		return
	}
	out, e3 := integrate.ChangeExtendedSpatialIdsZoom(fine, hc, v)
	if e3 != nil {
		out = []string{"zoom change failed"}
	}
	emitLaw(t, "RowBracketHierarchy", map[string]any{"p": hexTriple(p.Lon(), p.Lat(), p.Alt()), "hc": hc, "hf": hf, "v": v}, coarse, out, "")
}

// lawMixedZoomList: ChangeExtendedSpatialIdsZoom of a list mixing zoom pairs equals the union of the conversions of
// its members.  The zoom pairs are chosen next to each other under the usual ways of packing (h, v) into one number
// (h*35+v, h*36+v, h<<5|v, swapped, one apart), including the extremes 0 and 35 in one list.
func lawMixedZoomList(t *Tracer, r Rng) {
	h, v := r.In(1, 34), r.In(0, 35)
	if r.Chance(0.5) {
		v = r.Pick(0, 35, 34, 1, 32, 31)
	}
	type hv struct{ h, v int64 }
	clip := func(z int64) int64 { return max(0, min(35, z)) }
	cands := []hv{{h, v}, {h + 1, v - 35}, {h - 1, v + 35}, {h + 1, v - 36}, {h - 1, v + 36}, {h + 1, v - 32}, {h - 1, v + 32},
		{h, v + 1}, {h, v - 1}, {h + 1, v}, {h - 1, v}, {h + 1, 0}, {h - 1, 35}, {h, 35 - v}, {h + 1, v}, {h, v}}
	k := 2 + r.Intn(3)
	zs := []hv{{h, v}}
	for len(zs) < k {
		c := cands[r.Intn(len(cands))]
		if c.v < 0 || c.v > 35 || c.h < 0 || c.h > 35 {
			continue
		}
		zs = append(zs, c)
	}
	r.Shuffle(len(zs), func(i, j int) { zs[i], zs[j] = zs[j], zs[i] })
	minV, maxH := int64(35), int64(0)
	list := []string{}
	for _, z := range zs {
		nh, nv := int64(1)<<uint(z.h), int64(1)<<uint(z.v)
		id := ID{z.h, r.edgeIn(0, nh-1), r.edgeIn(0, nh-1), z.v, r.edgeIn(-nv, nv-1)}
		list = append(list, id.String())
		minV, maxH = min(minV, z.v), max(maxH, z.h)
	}
	th, tv := clip(maxH+r.In(-3, 1)), clip(minV+r.In(-3, 2)) // at most 4^3 x 2^2 cells per member
	if r.Chance(0.3) {
		tv = clip(r.In(0, minV+2))
	}
	conv := func(ids []string) ([]string, string) {
		o, res := guard(func() (any, error) { return integrate.ChangeExtendedSpatialIdsZoom(ids, th, tv) })
		if o != "ok" {
			return nil, "outcome " + o
		}
		return strs(res), ""
	}
	whole, bad := conv(list)
	set := map[string]bool{}
	for _, s := range list {
		one, b1 := conv([]string{s})
		if b1 != "" && bad == "" {
			bad = b1
		}
		for _, x := range one {
			set[x] = true
		}
	}
	parts := make([]string, 0, len(set))
	for x := range set {
		parts = append(parts, x)
	}
	emitLaw(t, "ZoomListIsUnionOfMembers", map[string]any{"ids": list, "to": fmt.Sprint(th, "/", tv)}, sortedCopy(whole), sortedCopy(parts), bad)
}

func driveLaws(t *Tracer, r Rng, n int) {
	for i := 0; i < n; i++ {
		if i%3 == 2 {
			lawRowBracket(t, r)
			continue
		}
		switch r.Intn(12) {
		case 10, 11: // a list whose members have DIFFERENT zoom pairs is converted member by member (C03: "for every list")
			lawMixedZoomList(t, r)
		case 9: // a single tile's IDs are exactly the vertical range the key conversion reports (any magnitude)
			E := r.In(0, 35)
			kz := r.In(0, 35)
			nk := int64(1) << uint(kz)
			z := r.edgeIn(0, nk-1)
			ovz := r.In(0, 35)
			O := r.offset()
			if r.Chance(0.3) {
				O = r.In(-(1 << 36), 1<<36)
			}
			th := r.In(0, 35)
			tx, ty := r.patternedIndex(th), r.patternedIndex(th)
			mn, mx, err := transform.ConvertAltitudekeyToMinMaxZ(z, kz, ovz, E, O)
			if err == nil && mx-mn > 64 {
				continue
			}
			tile, terr := object.NewTileXYZ(th, tx, ty, kz, z)
			if terr != nil {
				continue
			}
			var lhs, rhs []string
			o, _ := guard(func() (any, error) {
				res, e2 := transform.ConvertTileXYZsToExtendedSpatialIDs([]*object.TileXYZ{tile}, E, O, ovz)
				if (e2 != nil) != (err != nil) {
					lhs, rhs = []string{fmt.Sprint("error:", e2 != nil)}, []string{fmt.Sprint("error:", err != nil)}
					return nil, nil
				}
				if err != nil {
					lhs, rhs = []string{"error"}, []string{"error"}
					return nil, nil
				}
				for _, id := range res {
					lhs = append(lhs, id.ID())
				}
				for f := mn; f <= mx; f++ {
					rhs = append(rhs, fmt.Sprintf("%d/%d/%d/%d/%d", th, tx, ty, ovz, f))
				}
				return nil, nil
			})
			bad := ""
			if o != "ok" {
				bad = "outcome " + o
			}
			emitLaw(t, "TileIsKeyRange", map[string]any{"tile": fmt.Sprint(th, tx, ty, kz, z), "E": E, "O": O, "ovz": ovz}, sortedCopy(lhs), sortedCopy(rhs), bad)
		case 7: // translation law: moving the voxel by k cells = moving the offset by k cell heights (cells >= 1 m);
			// moving the offset by m key cells moves the keys by m.  Ties large indices / offsets to the small
			// ones whose band TLC evaluates exactly.
			zi := r.In(0, 25)
			E := r.In(0, 35)
			zo := r.In(0, E)
			nz := int64(1) << uint(zi)
			f := r.edgeIn(-nz, nz-1)
			f0 := r.In(-minI(nz, 8), minI(nz-1, 7))
			k := f - f0
			hs := int64(1) << uint(25-zi)
			c := int64(1) << uint(E-zo)
			O := r.offset()
			m := r.In(-(1 << 20), 1<<20)
			var lhs, rhs []string
			o, _ := guard(func() (any, error) {
				a1, b1, e1 := transform.ConvertZToMinMaxAltitudekey(f, zi, zo, E, O)
				a2, b2, e2 := transform.ConvertZToMinMaxAltitudekey(f0, zi, zo, E, O+k*hs)
				a3, b3, e3 := transform.ConvertZToMinMaxAltitudekey(f0, zi, zo, E, O+k*hs-m*c)
				lhs = []string{fmt.Sprint(a1, b1, e1 != nil), fmt.Sprint(a1, b1, e1 != nil)}
				rhs = []string{fmt.Sprint(a2, b2, e2 != nil), fmt.Sprint(a3+m, b3+m, e3 != nil)}
				if e1 != nil || e3 != nil { // an error on either side: only the error flags of the first relation are compared
					lhs, rhs = []string{fmt.Sprint(e1 != nil)}, []string{fmt.Sprint(e2 != nil)}
				}
				return nil, nil
			})
			bad := ""
			if o != "ok" {
				bad = "outcome " + o
			}
			emitLaw(t, "AltitudeKeyTranslate", map[string]any{"f": f, "f0": f0, "zi": zi, "zo": zo, "E": E, "O": O, "m": m}, lhs, rhs, bad)
		case 8: // the same for key -> Z (key cells >= 1 m, output cells >= 1 m)
			E := r.In(0, 35)
			kz := r.In(0, minI(E, 34))
			zo := r.In(0, 25)
			nk := int64(1) << uint(kz)
			k := r.edgeIn(0, nk-1)
			k0 := r.In(0, minI(nk-1, 9))
			hk := int64(1) << uint(E-kz)
			c := int64(1) << uint(25-zo)
			O := r.offset()
			n2 := r.In(-(1 << 18), 1<<18)
			var lhs, rhs []string
			o, _ := guard(func() (any, error) {
				a1, b1, e1 := transform.ConvertAltitudekeyToMinMaxZ(k, kz, zo, E, O)
				a2, b2, e2 := transform.ConvertAltitudekeyToMinMaxZ(k0, kz, zo, E, O-(k-k0)*hk)
				a3, b3, e3 := transform.ConvertAltitudekeyToMinMaxZ(k0, kz, zo, E, O-(k-k0)*hk+n2*c)
				lhs = []string{fmt.Sprint(a1, b1, e1 != nil), fmt.Sprint(a1, b1, e1 != nil)}
				rhs = []string{fmt.Sprint(a2, b2, e2 != nil), fmt.Sprint(a3+n2, b3+n2, e3 != nil)}
				if e1 != nil || e3 != nil {
					lhs, rhs = []string{fmt.Sprint(e1 != nil)}, []string{fmt.Sprint(e2 != nil)}
				}
				return nil, nil
			})
			bad := ""
			if o != "ok" {
				bad = "outcome " + o
			}
			emitLaw(t, "KeyToZTranslate", map[string]any{"k": k, "k0": k0, "kz": kz, "zo": zo, "E": E, "O": O, "n": n2}, lhs, rhs, bad)
		case 0: // zoom-out in two steps = zoom-out in one step (any span)
			id := r.fullRangeID()
			lh, lv := r.In(0, id.H), r.In(0, id.V)
			mh, mv := r.In(lh, id.H), r.In(lv, id.V)
			var direct, composed []string
			o, _ := guard(func() (any, error) {
				var err error
				if direct, err = integrate.ChangeExtendedSpatialIdsZoom([]string{id.String()}, lh, lv); err != nil {
					return nil, err
				}
				mid, err := integrate.ChangeExtendedSpatialIdsZoom([]string{id.String()}, mh, mv)
				if err != nil {
					return nil, err
				}
				composed, err = integrate.ChangeExtendedSpatialIdsZoom(mid, lh, lv)
				return nil, err
			})
			bad := ""
			if o != "ok" {
				bad = "outcome " + o
			}
			emitLaw(t, "ZoomOutCompose", map[string]any{"id": id.String(), "mid": fmt.Sprint(mh, "/", mv), "to": fmt.Sprint(lh, "/", lv)}, sortedCopy(direct), sortedCopy(composed), bad)
		case 1: // the voxel of a point at a coarse zoom = zoom-out of its voxel at any finer zoom (spans up to 35)
			lon, lat, alt, _, _, _, _ := r.hierCase()
			h1, v1 := r.In(20, 35), r.In(20, 35)
			h2, v2 := r.In(0, h1), r.In(0, v1)
			pt, err := object.NewPoint(lon, lat, alt)
			if err != nil {
				continue
			}
			var coarse, zoomed []string
			o, _ := guard(func() (any, error) {
				fine, err := shape.GetExtendedSpatialIdsOnPoints([]*object.Point{pt}, h1, v1)
				if err != nil {
					return nil, err
				}
				if coarse, err = shape.GetExtendedSpatialIdsOnPoints([]*object.Point{pt}, h2, v2); err != nil {
					return nil, err
				}
				zoomed, err = integrate.ChangeExtendedSpatialIdsZoom(fine, h2, v2)
				return nil, err
			})
			bad := ""
			if o != "ok" {
				bad = "outcome " + o
			}
			emitLaw(t, "LookupThenZoomOut", map[string]any{"pt": hexTriple(lon, lat, alt), "fine": fmt.Sprint(h1, "/", v1), "coarse": fmt.Sprint(h2, "/", v2)}, coarse, zoomed, bad)
		case 2: // vertical shifts of any size compose and invert
			id := r.fullRangeID()
			d1 := r.In(-(1 << 60), 1<<60)
			d2 := r.In(-(1 << 60), 1<<60)
			if r.Chance(0.3) {
				d1, d2 = r.In(-(1<<33), 1<<33), r.In(-(1<<33), 1<<33)
			}
			dx, dy := r.smallShift(), r.smallShift()
			var lhs, rhs []string
			o, _ := guard(func() (any, error) {
				a := operated.GetShiftingSpatialID(id.String(), dx, dy, d1)
				ab := operated.GetShiftingSpatialID(a, -dx, -dy, d2)
				sum := operated.GetShiftingSpatialID(id.String(), 0, 0, d1+d2)
				back := operated.GetShiftingSpatialID(a, -dx, -dy, -d1)
				lhs = []string{ab, back}
				rhs = []string{sum, id.String()}
				return nil, nil
			})
			bad := ""
			if o != "ok" {
				bad = "outcome " + o
			}
			emitLaw(t, "ShiftComposeLarge", map[string]any{"id": id.String(), "d1": d1, "d2": d2}, lhs, rhs, bad)
		case 3: // corner indices of a zoom change in two steps = in one step (any span, both directions)
			id := r.fullRangeID()
			zo := r.In(0, 35)
			mid := r.In(minI(id.H, zo), maxI(id.H, zo))
			var lhs, rhs []string
			o, _ := guard(func() (any, error) {
				a, b, c, d := integrate.HorizontalZoomMinMax(id.H, id.X, id.Y, zo)
				ma, mb, mc, md := integrate.HorizontalZoomMinMax(id.H, id.X, id.Y, mid)
				a2, b2, _, _ := integrate.HorizontalZoomMinMax(mid, ma, mb, zo)
				_, _, c2, d2 := integrate.HorizontalZoomMinMax(mid, mc, md, zo)
				lhs = []string{fmt.Sprint(a, b, c, d)}
				rhs = []string{fmt.Sprint(a2, b2, c2, d2)}
				return nil, nil
			})
			bad := ""
			if o != "ok" {
				bad = "outcome " + o
			}
			emitLaw(t, "HorizontalMinMaxCompose", map[string]any{"id": id.String(), "mid": mid, "zo": zo}, lhs, rhs, bad)
		case 4: // altitude keys of a voxel's first / last sub-voxel share its range ends (metre-or-coarser cells, any magnitude)
			zi := r.In(0, 24)
			j := r.In(1, 25-zi)
			nz := int64(1) << uint(zi)
			f := r.edgeIn(-nz, nz-1)
			E := r.In(0, 35)
			zo := r.In(0, minI(35, E+3))
			O := r.offset()
			if r.Chance(0.3) {
				O = r.In(-(1 << 40), 1<<40)
			}
			var lhs, rhs []string
			o, _ := guard(func() (any, error) {
				mn, mx, err := transform.ConvertZToMinMaxAltitudekey(f, zi, zo, E, O)
				if err != nil {
					return nil, err
				}
				mn1, _, err1 := transform.ConvertZToMinMaxAltitudekey(f<<uint(j), zi+j, zo, E, O)
				_, mx2, err2 := transform.ConvertZToMinMaxAltitudekey((f+1)<<uint(j)-1, zi+j, zo, E, O)
				if err1 != nil || err2 != nil {
					return nil, fmt.Errorf("sub-voxel conversion failed although the voxel's succeeded: %v %v", err1, err2)
				}
				lhs = []string{fmt.Sprint(mn), fmt.Sprint(mx)}
				rhs = []string{fmt.Sprint(mn1), fmt.Sprint(mx2)}
				return nil, nil
			})
			if o == "err" && lhs == nil {
				// the voxel itself is out of the key range: nothing to relate
				_, _, err := transform.ConvertZToMinMaxAltitudekey(f, zi, zo, E, O)
				if err != nil {
					continue
				}
			}
			bad := ""
			if o != "ok" {
				bad = "outcome " + o
			}
			emitLaw(t, "AltitudeKeySubVoxelEnds", map[string]any{"f": f, "zi": zi, "j": j, "zo": zo, "E": E, "O": O}, lhs, rhs, bad)
		case 5: // key -> Z of a key's first / last sub-key share the key's range ends
			E := r.In(0, 35)
			kz := r.In(0, minI(E, 30))
			j := r.In(1, minI(E-kz, 20)+0)
			if E-kz < 1 {
				continue
			}
			nk := int64(1) << uint(kz)
			k := r.edgeIn(0, nk-1)
			zo := r.In(0, 35)
			O := r.offset()
			var lhs, rhs []string
			o, _ := guard(func() (any, error) {
				mn, mx, err := transform.ConvertAltitudekeyToMinMaxZ(k, kz, zo, E, O)
				if err != nil {
					return nil, err
				}
				mn1, _, err1 := transform.ConvertAltitudekeyToMinMaxZ(k<<uint(j), kz+j, zo, E, O)
				_, mx2, err2 := transform.ConvertAltitudekeyToMinMaxZ((k+1)<<uint(j)-1, kz+j, zo, E, O)
				if err1 != nil || err2 != nil {
					return nil, fmt.Errorf("sub-key conversion failed although the key's succeeded: %v %v", err1, err2)
				}
				lhs = []string{fmt.Sprint(mn), fmt.Sprint(mx)}
				rhs = []string{fmt.Sprint(mn1), fmt.Sprint(mx2)}
				return nil, nil
			})
			if o == "err" && lhs == nil {
				if _, _, err := transform.ConvertAltitudekeyToMinMaxZ(k, kz, zo, E, O); err != nil {
					continue
				}
			}
			bad := ""
			if o != "ok" {
				bad = "outcome " + o
			}
			emitLaw(t, "KeyToZSubKeyEnds", map[string]any{"k": k, "kz": kz, "j": j, "zo": zo, "E": E, "O": O}, lhs, rhs, bad)
		default: // zooming in then back out is the identity at any zoom; merging all descendants gives the voxel back
			id := r.fullRangeID()
			dh, dv := r.In(0, minI(3, 35-id.H)), r.In(0, minI(4, 35-id.V))
			var lhs []string
			o, _ := guard(func() (any, error) {
				in, err := integrate.ChangeExtendedSpatialIdsZoom([]string{id.String()}, id.H+dh, id.V+dv)
				if err != nil {
					return nil, err
				}
				out, err := integrate.ChangeExtendedSpatialIdsZoom(in, id.H, id.V)
				if err != nil {
					return nil, err
				}
				merged, err := integrate.MergeExtendedSpatialIds(in, id.H, id.V)
				if err != nil {
					return nil, err
				}
				lhs = []string{fmt.Sprint(sortedCopy(out)), fmt.Sprint(sortedCopy(merged)), fmt.Sprint(len(in))}
				return nil, nil
			})
			bad := ""
			if o != "ok" {
				bad = "outcome " + o
			}
			want := fmt.Sprint([]string{id.String()})
			emitLaw(t, "InOutMergeIdentity", map[string]any{"id": id.String(), "dh": dh, "dv": dv}, lhs,
				[]string{want, want, fmt.Sprint(int64(math.Pow(4, float64(dh))) * (int64(1) << uint(dv)))}, bad)
		}
	}
}

func init() { families["laws"] = driveLaws }
