package main

// C10: notation conversions.

import (
	"github.com/trajectoryjp/spatial_id_go/v4/common/object"
	"github.com/trajectoryjp/spatial_id_go/v4/shape"
	"github.com/trajectoryjp/spatial_id_go/v4/transform"
)

func evSpToExt(t *Tracer, w Win, ids []ID) {
	if !(w.validIDs(ids...)) {
		return // outside the documented domain: not a case
	}
	real := w.embedSpList(ids)
	snap := append([]string(nil), real...)
	o, res := guard(func() (any, error) { return shape.ConvertSpatialIdsToExtendedSpatialIds(real) })
	e := w.ev("SpToExt", map[string]any{"ids": idsSpArr(ids), "kept": intact(real, snap)})
	e.O, e.Real = o, map[string]any{"ids": snap}
	e.R = []any{}
	if o != "panic" {
		e.R = w.projExtList(strs(res), &e.Bad)
	} else {
		e.Bad = "panic"
	}
	t.Emit(e, len(ids) > 0)
}

func evExtToSp(t *Tracer, w Win, ids []ID) {
	if !(w.validIDs(ids...)) {
		return // outside the documented domain: not a case
	}
	real := w.embedExtList(ids)
	snap := append([]string(nil), real...)
	o, res := guard(func() (any, error) { return shape.ConvertExtendedSpatialIdsToSpatialIds(real) })
	e := w.ev("ExtToSp", map[string]any{"ids": idsArr(ids), "kept": intact(real, snap)})
	e.O, e.Real = o, map[string]any{"ids": snap}
	e.R = []any{}
	if o != "panic" {
		e.R = w.projSpList(strs(res), &e.Bad)
	} else {
		e.Bad = "panic"
	}
	t.Emit(e, len(ids) > 0)
}

// evNewExtID: parse into an object and print / read back through every accessor.
func evNewExtID(t *Tracer, w Win, id ID) {
	if !(w.validIDs(id)) {
		return // outside the documented domain: not a case
	}
	rid := w.E(id)
	e := w.ev("NewExtID", map[string]any{"id": id.Arr()})
	e.Real = map[string]any{"id": rid.String()}
	var fp, get []int64
	var printed string
	o, _ := guard(func() (any, error) {
		obj, err := object.NewExtendedSpatialID(rid.String())
		if err != nil {
			return nil, err
		}
		fp = obj.FieldParams()
		get = []int64{obj.HZoom(), obj.X(), obj.Y(), obj.VZoom(), obj.Z()}
		printed = obj.ID()
		return nil, nil
	})
	e.O = o
	e.R = []any{}
	if o == "ok" && len(fp) == 5 {
		pf, ok1 := w.P(ID{fp[0], fp[1], fp[2], fp[3], fp[4]})
		pg, ok2 := w.P(ID{get[0], get[1], get[2], get[3], get[4]})
		if !ok1 || !ok2 {
			e.Bad = "far"
		}
		pr := w.projExtList([]string{printed}, &e.Bad)
		if e.Bad == "" {
			e.R = []any{pf.Arr(), pg.Arr(), pr[0]}
		}
		if printed != rid.String() {
			e.Bad = "printed form differs: " + printed
		}
	} else if o == "ok" {
		e.Bad = "FieldParams length"
	}
	t.Emit(e, true)
}

func evExpand(t *Tracer, w Win, id ID) {
	if !(w.validIDs(id)) {
		return // outside the documented domain: not a case
	}
	rid := w.E(id)
	o, res := guard(func() (any, error) {
		obj, err := object.NewExtendedSpatialID(rid.String())
		if err != nil {
			return nil, err
		}
		return transform.ConvertExtendedSpatialIDToSpatialIDs(obj), nil
	})
	e := w.ev("Expand", map[string]any{"id": id.Arr()})
	e.O, e.Real = o, map[string]any{"id": rid.String()}
	e.R = []any{}
	if o == "ok" {
		e.R = w.projSpList(strs(res), &e.Bad)
	} else {
		e.Bad = "outcome " + o
	}
	t.Emit(e, id.H != id.V)
}

func evVoxelID(t *Tracer, w Win, id ID) {
	if !(w.validIDs(id)) {
		return // outside the documented domain: not a case
	}
	rid := w.E(id)
	o, res := guard(func() (any, error) { return transform.GetVoxelIDfromSpatialID(rid.String()), nil })
	e := w.ev("VoxelID", map[string]any{"id": id.Arr()})
	e.O, e.Real = o, map[string]any{"id": rid.String()}
	e.R = []any{}
	if o == "ok" {
		v := res.([]int64)
		if len(v) == 3 {
			p, ok := w.P(ID{rid.H, v[0], v[1], rid.V, v[2]})
			if !ok {
				e.Bad = "far"
			} else {
				e.R = []int64{p.X, p.Y, p.F}
			}
		} else {
			e.Bad = "length"
		}
	} else {
		e.Bad = "panic"
	}
	t.Emit(e, true)
}

func driveNotation(t *Tracer, r Rng, n int) {
	for i := 0; i < n; i++ {
		if i%700 == 29 { // long lists: length and order are part of the statement
			d := r.In(8, 20)
			w := r.randomWindow(d, d, true)
			var ids []ID
			for k := r.Pick(255, 256, 257, 1000, 1023, 1024, 1025, r.In(300, 1500)); k > 0; k-- {
				ids = append(ids, r.randomIDAt(w, r.In(0, d), 0))
				ids[len(ids)-1].V = ids[len(ids)-1].H
			}
			evSpToExt(t, w, ids)
			evExtToSp(t, w, ids)
			continue
		}
		switch r.Intn(6) {
		case 0:
			d := r.In(0, 26)
			w := r.randomWindow(d, d, true)
			evSpToExt(t, w, r.randomIDList(w, d, d, 6, true))
		case 1:
			d := r.In(0, 26)
			w := r.randomWindow(d, d, true)
			evExtToSp(t, w, r.randomIDList(w, d, d, 6, true))
		case 2:
			hD, vD := r.In(0, 26), r.In(0, 26)
			w := r.randomWindow(hD, vD, false)
			evNewExtID(t, w, r.randomID(w, hD, vD))
		case 3, 4:
			// expansion needs a common base zoom; zoom difference bounded for cost
			d := r.In(0, 24)
			w := r.randomWindow(d, d, true)
			id := r.randomID(w, d, d)
			if id.V > id.H+5 {
				id = r.randomIDAt(w, id.V-r.In(0, 5), id.V)
			}
			if id.H > id.V+10 {
				id = r.randomIDAt(w, id.H, id.H-r.In(0, 10))
			}
			evExpand(t, w, id)
		default:
			hD, vD := r.In(0, 26), r.In(0, 26)
			w := r.randomWindow(hD, vD, false)
			evVoxelID(t, w, r.randomID(w, hD, vD))
		}
	}
}

func init() {
	families["notation"] = driveNotation
	reg("SpToExt", func(t *Tracer, w Win, a map[string]any) { evSpToExt(t, w, decSpIDs(a["ids"])) })
	reg("ExtToSp", func(t *Tracer, w Win, a map[string]any) { evExtToSp(t, w, decIDs(a["ids"])) })
	reg("NewExtID", func(t *Tracer, w Win, a map[string]any) { evNewExtID(t, w, decID(a["id"])) })
	reg("Expand", func(t *Tracer, w Win, a map[string]any) { evExpand(t, w, decID(a["id"])) })
	reg("VoxelID", func(t *Tracer, w Win, a map[string]any) { evVoxelID(t, w, decID(a["id"])) })
	reg("G.Notation", func(t *Tracer, w Win, a map[string]any) {
		id := decID(a["id"])
		evNewExtID(t, w, id)
		evVoxelID(t, w, id)
		evExpand(t, w.sameZoom(), id)
		if id.H == id.V {
			evSpToExt(t, w.sameZoom(), []ID{id})
			evExtToSp(t, w.sameZoom(), []ID{id})
		}
	})
}
