package main

// C15: invalid input is refused with an error (an empty ID from the shift
// helpers), never a panic or a silent answer.  Class vectors come from TLC
// (MC_Validation.tla) or from the seeded driver; this file concretises each
// class to concrete values and performs the call.

import (
	"fmt"
	"math"
	"math/big"
	"strings"

	"github.com/trajectoryjp/spatial_id_go/v4/common"
	"github.com/trajectoryjp/spatial_id_go/v4/common/enum"
	"github.com/trajectoryjp/spatial_id_go/v4/common/object"
	"github.com/trajectoryjp/spatial_id_go/v4/detector"
	"github.com/trajectoryjp/spatial_id_go/v4/integrate"
	"github.com/trajectoryjp/spatial_id_go/v4/operated"
	"github.com/trajectoryjp/spatial_id_go/v4/shape"
	"github.com/trajectoryjp/spatial_id_go/v4/transform"
)

type vctx struct {
	r  Rng
	cv []any
}

func (c vctx) str(i int) string {
	if s, ok := c.cv[i].(string); ok {
		return s
	}
	return ""
}
func (c vctx) pair(i int) (string, string) {
	a, _ := c.cv[i].([]any)
	if len(a) != 2 {
		return "good", ""
	}
	return a[0].(string), a[1].(string)
}

func (c vctx) zoom(i int) int64 {
	switch c.str(i) {
	case "zero":
		return 0
	case "one":
		return 1
	case "max35":
		return 35
	case "max31":
		return 31
	case "neg1":
		return -1
	case "over36":
		return 36
	case "over32":
		return 32
	case "minint":
		return math.MinInt64
	case "maxint":
		return math.MaxInt64
	}
	return c.r.In(3, 28)
}

// near returns a zoom for a well-formed ID that keeps the work small for target zoom z.
func near(r Rng, z int64) int64 {
	if z < 0 || z > 35 {
		return r.In(5, 20)
	}
	return maxI(0, minI(35, z+r.In(-1, 2)))
}

func goodExt(r Rng, hz, vz int64) string {
	h, v := near(r, hz), near(r, vz)
	return ID{h, r.In(0, (int64(1)<<uint(h))-1), r.In(0, (int64(1)<<uint(h))-1), v, r.In(-(int64(1) << uint(minI(v, 20))), (int64(1)<<uint(minI(v, 20)))-1)}.String()
}

func goodSp(r Rng, z int64) string {
	h := near(r, z)
	if h < 2 {
		h = 2
	}
	half := int64(1) << uint(minI(h-1, 20))
	return ID{H: h, X: r.In(0, (int64(1)<<uint(h))-1), Y: r.In(0, (int64(1)<<uint(h))-1), V: h, F: r.In(-half, half-1)}.Sp()
}

func corrupt(r Rng, id string, kind string) string {
	f := strings.Split(id, "/")
	pos := r.Intn(len(f))
	switch kind {
	case "arityminus":
		return strings.Join(f[:len(f)-1], "/")
	case "arityplus":
		return id + "/" + fmt.Sprint(r.In(0, 3))
	case "emptystring":
		return ""
	case "emptyfield":
		f[pos] = ""
	case "space":
		if r.Chance(0.5) {
			f[pos] = " " + f[pos]
		} else {
			f[pos] = f[pos] + " "
		}
	case "alpha":
		f[pos] = []string{"a", "x7", "3b", "NaN", "0x1F", "0b11", "0o17", "1_0", "0x"}[r.Intn(9)]
	case "float":
		f[pos] = []string{"1.5", "2.0", "1e3", "0x1p4", "1."}[r.Intn(5)]
	case "overflow":
		f[pos] = []string{"9223372036854775808", "-9223372036854775809", "99999999999999999999"}[r.Intn(3)]
	case "fullwidth":
		f[pos] = "１"
	}
	return strings.Join(f, "/")
}

func (c vctx) extID(i int, hz, vz int64) string {
	k := c.str(i)
	g := goodExt(c.r, hz, vz)
	if k == "good" {
		return g
	}
	return corrupt(c.r, g, k)
}
func (c vctx) spID(i int, z int64) string {
	k := c.str(i)
	g := goodSp(c.r, z)
	if k == "good" {
		return g
	}
	return corrupt(c.r, g, k)
}

func (c vctx) idList(i int, gen func() string) []string {
	shape_, kind := c.pair(i)
	if shape_ == "empty" {
		return []string{}
	}
	out := []string{gen(), gen(), gen()}
	switch shape_ {
	case "first":
		out[0] = corrupt(c.r, out[0], kind)
	case "middle":
		out[1] = corrupt(c.r, out[1], kind)
	case "last":
		out[2] = corrupt(c.r, out[2], kind)
	}
	return out
}

func (c vctx) point(i int) *object.Point {
	if c.str(i) == "nil" {
		return nil
	}
	p, _ := object.NewPoint(139+c.r.Float64()*0.001, 35+c.r.Float64()*0.001, c.r.Float64()*100)
	return p
}
func (c vctx) pointList(i int) []*object.Point {
	mk := func() *object.Point {
		p, _ := object.NewPoint(-180+360*c.r.Float64(), -85+170*c.r.Float64(), (c.r.Float64()*2-1)*1000)
		return p
	}
	switch c.str(i) {
	case "empty":
		return []*object.Point{}
	case "nilfirst":
		return []*object.Point{nil, mk()}
	case "nillast":
		return []*object.Point{mk(), mk(), nil}
	}
	return []*object.Point{mk(), mk()}
}
func (c vctx) lon(i int) float64 {
	switch c.str(i) {
	case "edge180":
		return 180
	case "edgeNeg180":
		return -180
	case "over":
		return []float64{math.Nextafter(180, 200), 180.0001, 360, 1e300}[c.r.Intn(4)]
	case "under":
		return []float64{math.Nextafter(-180, -200), -180.0001, -540}[c.r.Intn(3)]
	case "posinf":
		return math.Inf(1)
	case "neginf":
		return math.Inf(-1)
	}
	return -180 + 360*c.r.Float64()
}
func (c vctx) lat(i int) float64 {
	switch c.str(i) {
	case "edgeN":
		return latLimit
	case "edgeS":
		return -latLimit
	case "over":
		return []float64{85.0511287799, 85.06, 90, 1e300}[c.r.Intn(4)]
	case "under":
		return []float64{-85.0511287799, -85.06, -90}[c.r.Intn(3)]
	case "posinf":
		return math.Inf(1)
	case "neginf":
		return math.Inf(-1)
	}
	return -85 + 170*c.r.Float64()
}
func (c vctx) option(i int) enum.PointOption {
	switch c.str(i) {
	case "center":
		return enum.Center
	case "two":
		return enum.PointOption(2)
	case "neg1":
		return enum.PointOption(-1)
	}
	return enum.Vertex
}
func (c vctx) radius(i int) float64 {
	switch c.str(i) {
	case "zero":
		return 0
	case "neg":
		return []float64{-1, -1e-9, math.Inf(-1)}[c.r.Intn(3)]
	}
	return 1 + c.r.Float64()*5
}
func (c vctx) layers(i int) int64 {
	switch c.str(i) {
	case "zero":
		return 0
	case "neg":
		return []int64{-1, -5, math.MinInt64}[c.r.Intn(3)]
	}
	return 1
}
func (c vctx) heights(i int) (float64, float64) { // max, min
	switch c.str(i) {
	case "normal":
		return 1000, -24
	case "inverted":
		return -5, 10
	}
	return 0, 0
}

type vres struct {
	o            string
	empty, hasEm bool
}

func listRes(o string, res any) vres {
	ss := strs(res)
	v := vres{o: o, empty: len(ss) == 0}
	for _, s := range ss {
		if s == "" {
			v.hasEm = true
		}
	}
	return v
}
func boolRes(o string, res any) vres {
	b, _ := res.(bool)
	return vres{o: o, empty: !b}
}
func anyRes(o string) vres { return vres{o: o, empty: true} }

var invalidFns = map[string]func(c vctx) vres{}

func init() {
	f := invalidFns
	f["shape.GetSpatialIdsOnPoints"] = func(c vctx) vres {
		return listRes(guard(func() (any, error) { return shape.GetSpatialIdsOnPoints(c.pointList(0), c.zoom(1)) }))
	}
	f["shape.GetExtendedSpatialIdsOnPoints"] = func(c vctx) vres {
		return listRes(guard(func() (any, error) { return shape.GetExtendedSpatialIdsOnPoints(c.pointList(0), c.zoom(1), c.zoom(2)) }))
	}
	f["shape.GetPointOnSpatialId"] = func(c vctx) vres {
		o, res := guard(func() (any, error) { return shape.GetPointOnSpatialId(c.spID(0, 20), c.option(1)) })
		ps, _ := res.([]*object.Point)
		return vres{o: o, empty: len(ps) == 0}
	}
	f["shape.GetPointOnExtendedSpatialId"] = func(c vctx) vres {
		o, res := guard(func() (any, error) { return shape.GetPointOnExtendedSpatialId(c.extID(0, 20, 20), c.option(1)) })
		ps, _ := res.([]*object.Point)
		return vres{o: o, empty: len(ps) == 0}
	}
	f["shape.ConvertSpatialIdsToExtendedSpatialIds"] = func(c vctx) vres {
		in := c.idList(0, func() string { return goodSp(c.r, 20) })
		o, res := guard(func() (any, error) { return shape.ConvertSpatialIdsToExtendedSpatialIds(in) })
		// arity-only function: the documented companion is the prefix converted so far (not checked)
		_ = res
		return vres{o: o, empty: true}
	}
	f["shape.ConvertExtendedSpatialIdsToSpatialIds"] = func(c vctx) vres {
		in := c.idList(0, func() string { return goodExt(c.r, 20, 20) })
		o, _ := guard(func() (any, error) { return shape.ConvertExtendedSpatialIdsToSpatialIds(in) })
		return vres{o: o, empty: true}
	}
	f["shape.GetSpatialIdsOnLine"] = func(c vctx) vres {
		return listRes(guard(func() (any, error) { return shape.GetSpatialIdsOnLine(c.point(0), c.point(1), capLineZoom(c.zoom(2))) }))
	}
	f["shape.GetExtendedSpatialIdsOnLine"] = func(c vctx) vres {
		return listRes(guard(func() (any, error) {
			return shape.GetExtendedSpatialIdsOnLine(c.point(0), c.point(1), capLineZoom(c.zoom(2)), capLineZoom(c.zoom(3)))
		}))
	}
	f["integrate.ChangeSpatialIdsZoom"] = func(c vctx) vres {
		z := c.zoom(1)
		in := c.idList(0, func() string { return goodSp(c.r, z) })
		return listRes(guard(func() (any, error) { return integrate.ChangeSpatialIdsZoom(in, z) }))
	}
	f["integrate.ChangeExtendedSpatialIdsZoom"] = func(c vctx) vres {
		h, v := c.zoom(1), c.zoom(2)
		in := c.idList(0, func() string { return goodExt(c.r, h, v) })
		return listRes(guard(func() (any, error) { return integrate.ChangeExtendedSpatialIdsZoom(in, h, v) }))
	}
	f["integrate.MergeSpatialIds"] = func(c vctx) vres {
		z := c.zoom(1)
		in := c.idList(0, func() string { return goodSp(c.r, z) })
		return listRes(guard(func() (any, error) { return integrate.MergeSpatialIds(in, z) }))
	}
	f["integrate.MergeExtendedSpatialIds"] = func(c vctx) vres {
		h, v := c.zoom(1), c.zoom(2)
		in := c.idList(0, func() string { return goodExt(c.r, h, v) })
		return listRes(guard(func() (any, error) { return integrate.MergeExtendedSpatialIds(in, h, v) }))
	}
	f["operated.GetNspatialIdsAroundVoxcels"] = func(c vctx) vres {
		in := c.idList(0, func() string { return goodExt(c.r, 20, 20) })
		return listRes(guard(func() (any, error) { return operated.GetNspatialIdsAroundVoxcels(in, c.layers(1), c.layers(2)) }))
	}
	f["operated.GetShiftingSpatialID"] = func(c vctx) vres {
		o, res := guard(func() (any, error) {
			return operated.GetShiftingSpatialID(c.extID(0, 20, 20), c.r.In(-3, 3), c.r.In(-3, 3), c.r.In(-3, 3)), nil
		})
		s, _ := res.(string)
		return vres{o: o, empty: s == "", hasEm: s == ""}
	}
	for name, fn := range map[string]func(string) []string{
		"operated.Get6spatialIdsAdjacentToFaces":  operated.Get6spatialIdsAdjacentToFaces,
		"operated.Get8spatialIdsAroundHorizontal": operated.Get8spatialIdsAroundHorizontal,
		"operated.Get26spatialIdsAroundVoxel":     operated.Get26spatialIdsAroundVoxel,
	} {
		fn := fn
		f[name] = func(c vctx) vres {
			return listRes(guard(func() (any, error) { return fn(c.extID(0, 20, 20)), nil }))
		}
	}
	// overlap checks: well-formed IDs are chosen far apart so that every pair is examined
	f["detector.CheckSpatialIdsOverlap"] = func(c vctx) vres {
		a, b := c.spID(0, 20), c.spID(1, 9)
		if c.r.Chance(0.5) {
			g := goodSp(c.r, 20)
			a, b = g, g
			if k := c.str(0); k != "good" {
				a = corrupt(c.r, g, k)
			}
			if k := c.str(1); k != "good" {
				b = corrupt(c.r, g, k)
				if c.str(0) == k && c.r.Chance(0.5) {
					b = a
				}
			}
		}
		return boolRes(guard(func() (any, error) { return detector.CheckSpatialIdsOverlap(a, b) }))
	}
	f["detector.CheckSpatialIdsArrayOverlap"] = func(c vctx) vres {
		a := c.idList(0, func() string { return goodSp(c.r, 20) })
		b := c.idList(1, func() string { return goodSp(c.r, 21) })
		return boolRes(guard(func() (any, error) { return detector.CheckSpatialIdsArrayOverlap(a, b) }))
	}
	f["detector.CheckExtendedSpatialIdsOverlap"] = func(c vctx) vres {
		a, b := c.extID(0, 20, 20), c.extID(1, 21, 21)
		if c.r.Chance(0.5) { // the same voxel on both sides: one spelled correctly, one malformed (or both malformed alike)
			g := goodExt(c.r, 20, 20)
			a, b = g, g
			if k := c.str(0); k != "good" {
				a = corrupt(c.r, g, k)
			}
			if k := c.str(1); k != "good" {
				b = corrupt(c.r, g, k)
				if c.str(0) == k && c.r.Chance(0.5) {
					b = a
				}
			}
		}
		return boolRes(guard(func() (any, error) { return detector.CheckExtendedSpatialIdsOverlap(a, b) }))
	}
	f["detector.CheckExtendedSpatialIdsArrayOverlap"] = func(c vctx) vres {
		zb := int64(21)
		if c.r.Chance(0.5) {
			zb = 20
		}
		a := c.idList(0, func() string { return ID{20, c.r.In(0, 1<<19), c.r.In(0, 1<<19), 20, c.r.In(-100, 100)}.String() })
		b := c.idList(1, func() string {
			return ID{zb, (1 << 19) + c.r.In(1, 1<<18), c.r.In(0, 1<<19), zb, c.r.In(-100, 100)}.String()
		})
		s1, _ := c.pair(0)
		s2, _ := c.pair(1)
		if s1 == "empty" || s2 == "empty" {
			// nothing to compare: entries of the other list are never looked at
			if s1 != "good" && s1 != "empty" || s2 != "good" && s2 != "empty" {
				return vres{o: "skip"}
			}
		}
		return boolRes(guard(func() (any, error) { return detector.CheckExtendedSpatialIdsArrayOverlap(a, b) }))
	}
	keyList := func(c vctx, i int, vz int64) []*object.QuadkeyAndVerticalID {
		mk := func(qz, vzz int64, maxH, minH float64) *object.QuadkeyAndVerticalID {
			return object.NewQuadkeyAndVerticalID(qz, c.r.In(0, 1000), vzz, c.r.In(0, 10), maxH, minH)
		}
		vv := near(c.r, vz)
		switch c.str(i) {
		case "empty":
			return []*object.QuadkeyAndVerticalID{}
		case "qzoom0":
			return []*object.QuadkeyAndVerticalID{mk(20, vv, 0, 0), mk(0, vv, 0, 0)}
		case "qzoom32":
			return []*object.QuadkeyAndVerticalID{mk(32, vv, 0, 0)}
		case "vzoom36":
			return []*object.QuadkeyAndVerticalID{mk(20, vv, 0, 0), mk(20, 36, 0, 0)}
		case "inverted":
			return []*object.QuadkeyAndVerticalID{mk(20, 3, -5, 10)}
		}
		return []*object.QuadkeyAndVerticalID{mk(20, vv, 0, 0), mk(21, vv, 0, 0)}
	}
	f["transform.ConvertQuadkeysAndVerticalIDsToExtendedSpatialIDs"] = func(c vctx) vres {
		h, v := c.zoom(1), c.zoom(2)
		hq := h
		if h >= 0 && h <= 35 { // keep the horizontal refinement small
			hq = r20(h)
		}
		_ = hq
		keys := keyList(c, 0, v)
		if h >= 24 && h <= 35 {
			for _, k := range keys {
				if k.QuadkeyZoom() >= 1 && k.QuadkeyZoom() <= 31 {
					k.SetQuadkeyZoom(minI(31, maxI(k.QuadkeyZoom(), h-2)))
				}
			}
		}
		return listRes(guard(func() (any, error) { return transform.ConvertQuadkeysAndVerticalIDsToExtendedSpatialIDs(keys, h, v) }))
	}
	f["transform.ConvertQuadkeysAndVerticalIDsToSpatialIDs"] = func(c vctx) vres {
		z := c.zoom(1)
		keys := keyList(c, 0, z)
		if z >= 24 && z <= 35 {
			for _, k := range keys {
				if k.QuadkeyZoom() >= 1 && k.QuadkeyZoom() <= 31 {
					k.SetQuadkeyZoom(minI(31, maxI(k.QuadkeyZoom(), z-2)))
				}
			}
		}
		return listRes(guard(func() (any, error) { return transform.ConvertQuadkeysAndVerticalIDsToSpatialIDs(keys, z) }))
	}
	groupsRes := func(o string, n int) vres { return vres{o: o, empty: n == 0} }
	f["transform.ConvertExtendedSpatialIDsToQuadkeysAndVerticalIDs"] = func(c vctx) vres {
		h, v := c.zoom(1), c.zoom(2)
		in := c.idList(0, func() string { return goodExt(c.r, h, v) })
		mx, mn := c.heights(3)
		if mx > mn && v > 12 && v <= 35 {
			v = 12 // bounded run length for the binary-subdivision form
		}
		o, res := guard(func() (any, error) {
			return transform.ConvertExtendedSpatialIDsToQuadkeysAndVerticalIDs(in, h, v, mx, mn)
		})
		g, _ := res.([]*object.FromExtendedSpatialIDToQuadkeyAndVerticalID)
		return groupsRes(o, len(g))
	}
	f["transform.ConvertSpatialIDsToQuadkeysAndVerticalIDs"] = func(c vctx) vres {
		h, v := c.zoom(1), c.zoom(2)
		z := h
		if v >= 0 && v <= 35 && (v > z || z < 0 || z > 35) {
			z = v
		}
		in := c.idList(0, func() string { return goodSp(c.r, z) })
		mx, mn := c.heights(3)
		if mx > mn && v > 12 && v <= 35 {
			v = 12
		}
		o, res := guard(func() (any, error) { return transform.ConvertSpatialIDsToQuadkeysAndVerticalIDs(in, h, v, mx, mn) })
		g, _ := res.([]*object.FromExtendedSpatialIDToQuadkeyAndVerticalID)
		return groupsRes(o, len(g))
	}
	f["transform.ConvertExtendedSpatialIDsToQuadkeysAndAltitudekeys"] = func(c vctx) vres {
		h, v := c.zoom(1), c.zoom(2)
		in := c.idList(0, func() string {
			hh, vv := near(c.r, h), near(c.r, v)
			return ID{hh, c.r.In(0, (int64(1)<<uint(hh))-1), c.r.In(0, (int64(1)<<uint(hh))-1), vv, 0}.String()
		})
		o, res := guard(func() (any, error) {
			return transform.ConvertExtendedSpatialIDsToQuadkeysAndAltitudekeys(in, h, v, 25, 0)
		})
		g, _ := res.([]*object.FromExtendedSpatialIDToQuadkeyAndAltitudekey)
		return groupsRes(o, len(g))
	}
	tiles := func(c vctx, i int) []*object.TileXYZ {
		z := int64(3)
		switch c.str(i) {
		case "below":
			z = -1
		case "above":
			z = 1 << 20
		}
		t1, _ := object.NewTileXYZ(20, 5, 6, 20, 3)
		t2, _ := object.NewTileXYZ(20, 5, 7, 20, z)
		return []*object.TileXYZ{t1, t2}
	}
	f["transform.ConvertTileXYZsToExtendedSpatialIDs"] = func(c vctx) vres {
		v := c.zoom(1)
		if v > 25 && v <= 35 {
			v = 25 + (v-25)%3
		}
		o, res := guard(func() (any, error) { return transform.ConvertTileXYZsToExtendedSpatialIDs(tiles(c, 0), 25, 0, v) })
		ids, _ := res.([]object.ExtendedSpatialID)
		return vres{o: o, empty: len(ids) == 0}
	}
	f["transform.ConvertTileXYZsToSpatialIDs"] = func(c vctx) vres {
		v := c.zoom(1)
		if v >= 0 && v <= 35 {
			v = maxI(16, minI(v, 24)) // bounded expansion
			if c.str(1) == "zero" || c.str(1) == "max35" {
				v = 20
			}
		}
		return listRes(guard(func() (any, error) { return transform.ConvertTileXYZsToSpatialIDs(tiles(c, 0), 25, 0, v) }))
	}
	f["transform.ConvertZToMinMaxAltitudekey"] = func(c vctx) vres {
		idx := int64(5)
		switch c.str(0) {
		case "below":
			idx = -(1 << 20) - 1
		case "above":
			idx = 1 << 20
		}
		o, _ := guard(func() (any, error) {
			_, _, err := transform.ConvertZToMinMaxAltitudekey(idx, 20, 22, 25, 1<<24)
			return nil, err
		})
		return anyRes(o)
	}
	f["transform.ConvertAltitudekeyToMinMaxZ"] = func(c vctx) vres {
		idx := int64(5)
		switch c.str(0) {
		case "below":
			idx = -1
		case "above":
			idx = 1 << 20
		}
		o, _ := guard(func() (any, error) {
			_, _, err := transform.ConvertAltitudekeyToMinMaxZ(idx, 20, 22, 25, 0)
			return nil, err
		})
		return anyRes(o)
	}
	f["transform.GetExtendedSpatialIdsWithinRadiusOfLine"] = func(c vctx) vres {
		h, v := capLineZoom(c.zoom(3)), capLineZoom(c.zoom(4))
		if h >= 0 && h < 10 {
			h = 10 // the layer fit needs a grid much wider than the radius
		}
		return listRes(guard(func() (any, error) {
			return transform.GetExtendedSpatialIdsWithinRadiusOfLine(c.point(0), c.point(1), c.radius(2), h, v, c.r.Chance(0.5))
		}))
	}
	f["transform.FitClearanceAroundExtendedSpatialID"] = func(c vctx) vres {
		o, _ := guard(func() (any, error) {
			_, _, err := transform.FitClearanceAroundExtendedSpatialID(c.extID(0, 20, 20), c.radius(1))
			return nil, err
		})
		return anyRes(o)
	}
	f["object.NewPoint"] = func(c vctx) vres {
		o, _ := guard(func() (any, error) { return object.NewPoint(c.lon(0), c.lat(1), 12.5) })
		return anyRes(o)
	}
	f["object.SetLon"] = func(c vctx) vres {
		o, _ := guard(func() (any, error) { p := &object.Point{}; return nil, p.SetLon(c.lon(0)) })
		return anyRes(o)
	}
	f["object.SetLat"] = func(c vctx) vres {
		o, _ := guard(func() (any, error) { p := &object.Point{}; return nil, p.SetLat(c.lat(0)) })
		return anyRes(o)
	}
	f["object.NewExtendedSpatialID"] = func(c vctx) vres {
		o, _ := guard(func() (any, error) { return object.NewExtendedSpatialID(c.extID(0, 20, 20)) })
		return anyRes(o)
	}
	f["object.ResetExtendedSpatialID"] = func(c vctx) vres {
		o, _ := guard(func() (any, error) {
			s := &object.ExtendedSpatialID{}
			return nil, s.ResetExtendedSpatialID(c.extID(0, 20, 20))
		})
		return anyRes(o)
	}
	tz := func(c vctx, i int) int64 {
		switch c.str(i) {
		case "zero":
			return 0
		case "max35":
			return 35
		case "neg1":
			return []int64{-1, -3, math.MinInt64}[c.r.Intn(3)]
		case "over36":
			return []int64{36, 64, math.MaxInt64}[c.r.Intn(3)]
		}
		return c.r.In(1, 34)
	}
	f["object.NewTileXYZ"] = func(c vctx) vres {
		o, res := guard(func() (any, error) { return object.NewTileXYZ(tz(c, 0), 1, 2, tz(c, 1), 3) })
		t, _ := res.(*object.TileXYZ)
		return vres{o: o, empty: t == nil}
	}
	f["object.SetHZoom"] = func(c vctx) vres {
		o, _ := guard(func() (any, error) { t := &object.TileXYZ{}; return nil, t.SetHZoom(tz(c, 0)) })
		return anyRes(o)
	}
	f["object.SetVZoom"] = func(c vctx) vres {
		o, _ := guard(func() (any, error) { t := &object.TileXYZ{}; return nil, t.SetVZoom(tz(c, 0)) })
		return anyRes(o)
	}
	nums := func(c vctx) []int64 {
		if c.str(0) == "empty" {
			return []int64{}
		}
		return []int64{3, -1, 7, 7}
	}
	f["common.Max"] = func(c vctx) vres {
		o, _ := guard(func() (any, error) { return common.Max(nums(c)) })
		return anyRes(o)
	}
	f["common.Min"] = func(c vctx) vres {
		o, _ := guard(func() (any, error) { return common.Min(nums(c)) })
		return anyRes(o)
	}
}

func r20(h int64) int64 { return h }

// capLineZoom keeps valid zooms of line queries in a range where the fixed
// test segment (about 100 m) spans a handful of voxels.
func capLineZoom(z int64) int64 {
	if z > 22 && z <= 35 {
		return 22
	}
	return z
}

func evInvalid(t *Tracer, r Rng, fn string, cv []any, fixedSeed int64) {
	f, ok := invalidFns[fn]
	if !ok {
		fmt.Println("no adapter for", fn)
		return
	}
	// several concretisations of the same class vector, each with its own recorded seed
	for k := 0; k < 4; k++ {
		rs := r.Int63() >> 34
		if fixedSeed >= 0 {
			rs = fixedSeed
		}
		res := f(vctx{NewRng(rs), cv})
		if res.o == "skip" {
			return
		}
		e := absW.ev("Invalid", map[string]any{"fn": fn, "cv": cv, "rs": rs})
		e.O = res.o
		e.R = map[string]any{"empty": res.empty, "emptyid": res.hasEm}
		t.Emit(e, true)
		if fixedSeed >= 0 {
			return
		}
	}
}

// evPointStore: accepted points store lon / alt unchanged, latitude cut towards zero by < 1e-10 deg.
func evPointStore(t *Tracer, r Rng) {
	lon := -180 + 360*r.Float64()
	lat := -latLimit + 2*latLimit*r.Float64()
	alt := (r.Float64()*2 - 1) * math.Ldexp(1, int(r.In(-10, 25)))
	switch r.Intn(6) {
	case 0:
		lat = float64(r.Pick(-1, 1)) * latLimit
	case 1:
		lon = float64(r.Pick(-1, 1)) * 180
	case 2:
		lat = math.Round(lat*1e6) / 1e6
	case 3:
		lat = float64(r.In(-8505112877, 8505112877)) / 1e8
	}
	evPointStoreAt(t, lon, lat, alt)
}

func evPointStoreAt(t *Tracer, lon, lat, alt float64) {
	p, err := object.NewPoint(lon, lat, alt)
	e := absW.ev("PointStore", map[string]any{"pt": hexTriple(lon, lat, alt)})
	e.O = "ok"
	if err != nil || p == nil {
		e.O = "err"
		e.R = map[string]any{"lon": false, "alt": false, "cut": 0, "toward": false, "ongrid": false}
		t.Emit(e, true)
		return
	}
	// exact difference of the two float64 values, in units of 1e-13 degree (floor)
	a := new(big.Rat).SetFloat64(math.Abs(lat))
	b := new(big.Rat).SetFloat64(math.Abs(p.Lat()))
	d := new(big.Rat).Sub(a, b)
	d.Mul(d, new(big.Rat).SetInt64(10000000000000))
	cut := new(big.Int).Quo(d.Num(), d.Denom()) // both non-negative when "toward" holds
	c := int64(1 << 20)
	if cut.IsInt64() && cut.Int64() < c {
		c = cut.Int64()
	}
	scaled := math.Abs(lat) * 1e10
	e.R = map[string]any{"lon": math.Float64bits(p.Lon()) == math.Float64bits(lon),
		"alt":    math.Float64bits(p.Alt()) == math.Float64bits(alt),
		"cut":    c,
		"toward": math.Abs(p.Lat()) <= math.Abs(lat) && (p.Lat() == 0 || (p.Lat() > 0) == (lat > 0)),
		// the input already is (the nearest float64 to) a multiple of 1e-10 degree
		"ongrid": math.Abs(scaled-math.Round(scaled)) < 1e-3}
	t.Emit(e, true)
}

func driveInvalid(t *Tracer, r Rng, n int) {
	// recorded finding D11: a latitude that already is a multiple of 1e-10 is cut by a whole step
	evPointStoreAt(t, 139.5, 2.5414458836, 10)
	for i := 0; i < n; i++ {
		evPointStore(t, r)
	}
}

func init() {
	families["invalid"] = driveInvalid
	reg("PointStore", func(t *Tracer, w Win, a map[string]any) {
		var b [3]uint64
		s, _ := a["pt"].(string)
		if n, _ := sscanHex3(s, &b[0], &b[1], &b[2]); n == 3 {
			evPointStoreAt(t, math.Float64frombits(b[0]), math.Float64frombits(b[1]), math.Float64frombits(b[2]))
		}
	})
	reg("Invalid", func(t *Tracer, w Win, a map[string]any) {
		cv, _ := a["cv"].([]any)
		fixed := int64(-1)
		if v, ok := a["rs"]; ok {
			fixed = decInt(v) // re-execution of a recorded call: same concretisation
		}
		evInvalid(t, NewRng(int64(len(fmt.Sprint(cv)))*7919+replaySeed), a["fn"].(string), cv, fixed)
	})
}

var replaySeed int64
