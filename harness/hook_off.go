//go:build !verif

package main

const hooksBuilt = false

func setOrderHook(f func(n int) []int) {}
