package main

// C07 (shift) and C08 (neighbourhoods).

import (
	"fmt"

	"github.com/trajectoryjp/spatial_id_go/v4/operated"
)

// worldWidths returns k * 2^H (real), the part of a horizontal shift that is
// invisible modulo the world; in absolute mode it is added to the model shift.
func worldWidths(k, realH int64) int64 { return k << uint(realH) }

func evShift(t *Tracer, w Win, id ID, dx, dy, dv, kx, ky int64) {
	if !(w.validIDs(id)) {
		return // outside the documented domain: not a case
	}
	rid := w.E(id)
	rdx, rdy := dx+worldWidths(kx, rid.H), dy+worldWidths(ky, rid.H)
	mdx, mdy := dx, dy
	if w.Abs {
		mdx, mdy = rdx, rdy
	}
	o, res := guard(func() (any, error) {
		return operated.GetShiftingSpatialID(rid.String(), rdx, rdy, dv), nil
	})
	e := w.ev("Shift", map[string]any{"id": id.Arr(), "dx": mdx, "dy": mdy, "dv": dv, "kx": kx, "ky": ky})
	e.O, e.Real = o, map[string]any{"id": rid.String(), "dx": rdx, "dy": rdy, "dv": dv}
	e.R = []any{}
	if o == "ok" {
		e.R = w.projExtList([]string{res.(string)}, &e.Bad)
	} else {
		e.Bad = "panic"
	}
	t.Emit(e, dx != 0 || dy != 0 || dv != 0)
}

// evShiftCompose: shift by d1, then by d2; shift by d1+d2; shift back by -d1.
func evShiftCompose(t *Tracer, w Win, id ID, d1, d2 [3]int64) {
	if !(w.validIDs(id)) {
		return // outside the documented domain: not a case
	}
	rid := w.E(id)
	e := w.ev("ShiftCompose", map[string]any{"id": id.Arr(), "d1": d1[:], "d2": d2[:]})
	e.Real = map[string]any{"id": rid.String()}
	var r1, r12, rsum, rback string
	o, _ := guard(func() (any, error) {
		r1 = operated.GetShiftingSpatialID(rid.String(), d1[0], d1[1], d1[2])
		r12 = operated.GetShiftingSpatialID(r1, d2[0], d2[1], d2[2])
		rsum = operated.GetShiftingSpatialID(rid.String(), d1[0]+d2[0], d1[1]+d2[1], d1[2]+d2[2])
		rback = operated.GetShiftingSpatialID(r1, -d1[0], -d1[1], -d1[2])
		return nil, nil
	})
	e.O = o
	e.R = []any{}
	if o == "ok" {
		e.R = w.projExtList([]string{r1, r12, rsum, rback}, &e.Bad)
	} else {
		e.Bad = "panic"
	}
	t.Emit(e, true)
}

func evNeighbours(t *Tracer, w Win, id ID, kind string) {
	if !(w.validIDs(id)) {
		return // outside the documented domain: not a case
	}
	rid := w.E(id)
	o, res := guard(func() (any, error) {
		switch kind {
		case "N6":
			return operated.Get6spatialIdsAdjacentToFaces(rid.String()), nil
		case "N8":
			return operated.Get8spatialIdsAroundHorizontal(rid.String()), nil
		default:
			return operated.Get26spatialIdsAroundVoxel(rid.String()), nil
		}
	})
	e := w.ev(kind, map[string]any{"id": id.Arr()})
	e.O, e.Real = o, map[string]any{"id": rid.String()}
	e.R = []any{}
	if o == "ok" {
		e.R = w.projExtList(strs(res), &e.Bad)
	} else {
		e.Bad = "panic"
	}
	t.Emit(e, true)
}

func evNLayer(t *Tracer, w Win, ids []ID, hl, vl int64) {
	if !(w.validIDs(ids...)) {
		return // outside the documented domain: not a case
	}
	real := w.embedExtList(ids)
	snap := append([]string(nil), real...)
	o, res := guard(func() (any, error) {
		return operated.GetNspatialIdsAroundVoxcels(real, hl, vl)
	})
	e := w.ev("NLayer", map[string]any{"ids": idsArr(ids), "hl": hl, "vl": vl, "kept": intact(real, snap)})
	e.O, e.Real = o, map[string]any{"ids": snap, "hl": hl, "vl": vl}
	e.R = []any{}
	if o != "panic" {
		e.R = w.projExtList(strs(res), &e.Bad)
	} else {
		e.Bad = "panic"
	}
	t.Emit(e, hl > 0 || vl > 0)
}

func (r Rng) smallShift() int64 {
	switch r.Intn(4) {
	case 0:
		return 0
	case 1:
		return r.Pick(-1, 1)
	default:
		return r.In(-9, 9)
	}
}

// driveTwinNeighbours: neighbourhood queries whose RESULTS contain two IDs that collide under a common
// string hash (32-bit twins from the birthday search, one known 64-bit twin)
func driveTwinNeighbours(t *Tracer, r Rng) {
	_, ext := hashTwins()
	w := Win{Abs: true}
	for i, te := range ext {
		if i%3 != 0 && i != len(ext)-1 {
			continue
		}
		wa, wb := te.A, te.B
		wa.X--
		wb.X--
		evNLayer(t, w, []ID{wa, wb}, 1, 0)
		evNLayer(t, w, []ID{wb, wa}, 1, 1)
		evNLayer(t, w, []ID{te.A, te.B}, 0, 1)
	}
}

// driveStrideNeighbours: N-layer queries for two voxels of one fine zoom pair (30 .. 35) that agree in every index
// but one, which differs by a power of two (or three times one) - far apart on the grid, adjacent in nothing, yet
// equal under any key that packs the indices into one machine word too narrow for the zoom.  The answer for the
// list must be the union of the answers for its members (the values exceed TLC's integers: a Law of strings).
func driveStrideNeighbours(t *Tracer, r Rng) {
	nl := func(ids []string, hl, vl int64) ([]string, string) {
		o, res := guard(func() (any, error) { return operated.GetNspatialIdsAroundVoxcels(ids, hl, vl) })
		if o != "ok" {
			return nil, "outcome " + o
		}
		return strs(res), ""
	}
	for z := int64(30); z <= 35; z++ {
		for k := z - 10; k < z; k++ {
			for axis := 0; axis < 3; axis++ {
				n := int64(1) << uint(z)
				a := ID{H: z, X: r.In(2, n/2-3), Y: r.In(2, n/2-3), V: z, F: r.In(2, n/2-3)}
				if r.Chance(0.3) {
					a.H, a.X, a.Y = z-r.In(1, 6), a.X>>6, a.Y>>6 // mixed zoom pair (the stride stays inside the smaller range)
					if axis < 2 && k >= a.H {
						continue
					}
				}
				d := int64(1) << uint(k)
				if r.Chance(0.25) && k+2 < z {
					d *= 3
				}
				b := a
				switch axis {
				case 0:
					b.X = (a.X + d) % (int64(1) << uint(a.H))
				case 1:
					b.Y = (a.Y + d) % (int64(1) << uint(a.H))
				default:
					b.F = a.F + d
					if b.F >= n {
						b.F = a.F - d
					}
				}
				// the other indices equal or within the layer distance
				c := b
				if r.Chance(0.5) {
					c.X += r.In(-1, 1)
					c.Y += r.In(-1, 1)
					c.F += r.In(-1, 1)
				}
				hl, vl := r.In(0, 2), r.In(0, 2)
				if hl+vl == 0 {
					hl = 1
				}
				list := []string{a.String(), c.String()}
				if r.Chance(0.5) {
					list[0], list[1] = list[1], list[0]
				}
				whole, bad := nl(list, hl, vl)
				set := map[string]bool{}
				for _, s := range list {
					one, b1 := nl([]string{s}, hl, vl)
					if b1 != "" && bad == "" {
						bad = b1
					}
					for _, x := range one {
						set[x] = true
					}
				}
				parts := make([]string, 0, len(set))
				for x := range set {
					parts = append(parts, x)
				}
				emitLaw(t, "NLayerListIsUnionOfMembers", map[string]any{"ids": list, "hl": hl, "vl": vl, "stride": d, "axis": axis},
					sortedCopy(whole), sortedCopy(parts), bad)
			}
		}
	}
}

func driveShift(t *Tracer, r Rng, n int) {
	if n >= 100 {
		driveTwinNeighbours(t, r)
		driveStrideNeighbours(t, r)
	}
	for i := 0; i < n; i++ {
		hD, vD := r.In(0, 6), r.In(0, 6)
		if r.Chance(0.4) {
			hD, vD = r.In(0, 25), r.In(0, 25)
		}
		w := r.randomWindow(hD, vD, false)
		id := r.randomID(w, hD, vD)
		switch r.Intn(10) {
		case 0, 1, 2:
			var kx, ky int64
			if r.Chance(0.4) {
				kx, ky = r.In(-4, 4), r.In(-4, 4)
			}
			dx, dy := r.smallShift(), r.smallShift()
			if w.Abs && r.Chance(0.3) { // cross the whole (small) world
				nh := int64(1) << uint(id.H)
				dx, dy = r.In(-nh, nh), r.In(-nh, nh)
			}
			if w.Abs && id.H <= 25 && r.Chance(0.25) {
				// land EXACTLY on a lap boundary: index + shift = k * 2^h, k * 2^h - 1, k * 2^h + 1 for k in -4 .. 4 (the sum an
				// exact negative multiple of the grid width, exactly -1, exactly 2^h), on one axis or both
				nh := int64(1) << uint(id.H)
				land := func(i int64) int64 { return r.Pick(0, 0, -1, 1) - i }
				switch r.Intn(3) {
				case 0:
					dx, kx = land(id.X), r.In(-4, 4)
				case 1:
					dy, ky = land(id.Y), r.In(-4, 4)
				default:
					dx, kx, dy, ky = land(id.X), r.In(-4, 4), land(id.Y), r.In(-4, 4)
				}
				_ = nh
			}
			if w.Abs && id.H > 25 {
				kx, ky = 0, 0
			}
			dv := r.smallShift()
			if r.Chance(0.2) {
				dv = r.In(-(1 << 27), 1<<27)
			}
			evShift(t, w, id, dx, dy, dv, kx, ky)
		case 3, 4:
			d1 := [3]int64{r.smallShift(), r.smallShift(), r.smallShift()}
			d2 := [3]int64{r.smallShift(), r.smallShift(), r.smallShift()}
			evShiftCompose(t, w, id, d1, d2)
		case 5:
			evNeighbours(t, w, id, "N6")
		case 6:
			evNeighbours(t, w, id, "N8")
		case 7:
			evNeighbours(t, w, id, "N26")
		default:
			// lists of adjacent / overlapping / identical voxels at one or mixed zooms
			k := 1 + r.Intn(4)
			ids := []ID{id}
			for len(ids) < k {
				b := ids[r.Intn(len(ids))]
				c := b
				if r.Chance(0.7) {
					c.X += r.In(-2, 2)
					c.Y += r.In(-2, 2)
					c.F += r.In(-2, 2)
					if w.Abs {
						nh := int64(1) << uint(c.H)
						c.X = ((c.X % nh) + nh) % nh
						c.Y = ((c.Y % nh) + nh) % nh
					}
				} else {
					c = r.randomID(w, hD, vD)
				}
				ids = append(ids, c)
			}
			evNLayer(t, w, ids, r.In(0, 4), r.In(0, 4))
		}
	}
}

func init() {
	families["shift"] = driveShift
	reg("Shift", func(t *Tracer, w Win, a map[string]any) {
		dx, dy := decInt(a["dx"]), decInt(a["dy"])
		kx, ky := decInt(a["kx"]), decInt(a["ky"])
		if w.Abs { // the model shift already contains the world widths
			id := decID(a["id"])
			dx -= worldWidths(kx, id.H)
			dy -= worldWidths(ky, id.H)
		}
		evShift(t, w, decID(a["id"]), dx, dy, decInt(a["dv"]), kx, ky)
	})
	reg("ShiftCompose", func(t *Tracer, w Win, a map[string]any) {
		d1, d2 := decInts(a["d1"]), decInts(a["d2"])
		evShiftCompose(t, w, decID(a["id"]), [3]int64{d1[0], d1[1], d1[2]}, [3]int64{d2[0], d2[1], d2[2]})
	})
	for _, k := range []string{"N6", "N8", "N26"} {
		kind := k
		reg(kind, func(t *Tracer, w Win, a map[string]any) { evNeighbours(t, w, decID(a["id"]), kind) })
	}
	reg("NLayer", func(t *Tracer, w Win, a map[string]any) {
		evNLayer(t, w, decIDs(a["ids"]), decInt(a["hl"]), decInt(a["vl"]))
	})
	reg("G.Shift", func(t *Tracer, w Win, a map[string]any) {
		for _, s := range decIDs(a["ids"]) {
			evShift(t, w, s, decInt(a["dx"]), decInt(a["dy"]), decInt(a["dv"]), 0, 0)
		}
	})
	reg("G.Around", func(t *Tracer, w Win, a map[string]any) {
		evNeighbours(t, w, decID(a["id"]), fmt.Sprintf("N%d", decInt(a["k"])))
	})
	reg("G.Higher", func(t *Tracer, w Win, a map[string]any) {
		for _, s := range decIDs(a["ids"]) {
			evHigher(t, w, s, minI(decInt(a["dh"]), s.H), minI(decInt(a["dv"]), s.V))
		}
	})
	reg("G.NLayer", func(t *Tracer, w Win, a map[string]any) {
		ids := decIDs(a["ids"])
		evNLayer(t, w, ids, decInt(a["hl"]), decInt(a["vl"]))
		for _, s := range ids {
			evNeighbours(t, w, s, "N6")
			evNeighbours(t, w, s, "N8")
			evNeighbours(t, w, s, "N26")
		}
	})
}
