package main

// C04 (merge) and C05 (overlap).

import (
	"github.com/trajectoryjp/spatial_id_go/v4/common/object"
	"github.com/trajectoryjp/spatial_id_go/v4/detector"
	"github.com/trajectoryjp/spatial_id_go/v4/integrate"
)

// mergeTooBig: the model refines every eligible input to the finest input zooms; indices that would
// leave TLC's integers there make the case unrepresentable (it is skipped, not judged).
func mergeTooBig(ids []ID) bool {
	var mh, mv int64
	for _, s := range ids {
		mh, mv = maxI(mh, s.H), maxI(mv, s.V)
	}
	for _, s := range ids {
		dh, dv := uint(mh-s.H), uint(mv-s.V)
		if dh > 30 || dv > 30 || (abs64(s.X)+1)<<dh >= 1<<29 || (abs64(s.Y)+1)<<dh >= 1<<29 || (abs64(s.F)+1)<<dv >= 1<<29 {
			return true
		}
	}
	return false
}

func evMergeExt(t *Tracer, w Win, ids []ID, h, v int64) {
	if !(w.validIDs(ids...)) {
		return // outside the documented domain: not a case
	}
	if mergeTooBig(ids) {
		return
	}
	real := w.embedExtList(ids)
	snap := append([]string(nil), real...)
	var r2 []string
	o, res := guard(func() (any, error) {
		r1, err := integrate.MergeExtendedSpatialIds(real, w.H0+h, w.V0+v)
		if err != nil {
			return r1, err
		}
		in2 := append([]string(nil), r1...)
		r2, err = integrate.MergeExtendedSpatialIds(in2, w.H0+h, w.V0+v) // idempotence: merge its own output
		return r1, err
	})
	e := w.ev("MergeExt", map[string]any{"ids": idsArr(ids), "h": h, "v": v, "kept": intact(real, snap)})
	e.O, e.Real = o, map[string]any{"ids": snap, "h": w.H0 + h, "v": w.V0 + v}
	e.R = []any{}
	if o != "panic" {
		e.R = w.projExtList(strs(res), &e.Bad)
		e.A["r2"] = w.projExtList(r2, &e.Bad)
	} else {
		e.Bad = "panic"
		e.A["r2"] = []any{}
	}
	t.Emit(e, len(strs(res)) < len(dedupe(real)))
}

func evMergeSp(t *Tracer, w Win, ids []ID, z int64) {
	if !(w.validIDs(ids...)) {
		return // outside the documented domain: not a case
	}
	if mergeTooBig(ids) {
		return
	}
	real := w.embedSpList(ids)
	snap := append([]string(nil), real...)
	var r2 []string
	o, res := guard(func() (any, error) {
		r1, err := integrate.MergeSpatialIds(real, w.H0+z)
		if err != nil {
			return r1, err
		}
		in2 := append([]string(nil), r1...)
		r2, err = integrate.MergeSpatialIds(in2, w.H0+z)
		return r1, err
	})
	e := w.ev("MergeSp", map[string]any{"ids": idsSpArr(ids), "z": z, "kept": intact(real, snap)})
	e.O, e.Real = o, map[string]any{"ids": snap, "z": w.H0 + z}
	e.R = []any{}
	if o != "panic" {
		e.R = w.projSpList(strs(res), &e.Bad)
		e.A["r2"] = w.projSpList(r2, &e.Bad)
	} else {
		e.Bad = "panic"
		e.A["r2"] = []any{}
	}
	t.Emit(e, len(strs(res)) < len(dedupe(real)))
}

func dedupe(ss []string) []string {
	m := map[string]struct{}{}
	out := []string{}
	for _, s := range ss {
		if _, ok := m[s]; !ok {
			m[s] = struct{}{}
			out = append(out, s)
		}
	}
	return out
}

// mergeCandidates: descendants of one or two target voxels at mixed finer
// zooms (a random partition), with some cells dropped, duplicated, or
// replaced by coarser / unrelated voxels.
func (r Rng) mergeCandidates(w Win, h, v, spread int64, sp bool) []ID {
	var out []ID
	nt := 1 + r.Intn(2)
	base := r.randomIDAt(w, h, v)
	for k := 0; k < nt; k++ {
		tgt := base
		if k > 0 {
			tgt.X += r.In(-1, 1)
			tgt.F += r.In(-1, 1)
			if w.Abs {
				nh := int64(1) << uint(h)
				tgt.X = ((tgt.X % nh) + nh) % nh
			}
			if r.Chance(0.3) { // a second target far away whose indices agree with the first in their low bits
				if tw, ok := r.strided(w, base); ok {
					tgt = tw
				}
			}
		}
		var split func(s ID, depth int64)
		split = func(s ID, depth int64) {
			if depth >= spread || r.Chance(0.35) {
				if !r.Chance(0.08) { // drop
					out = append(out, s)
				}
				return
			}
			dh, dv := int64(1), int64(1)
			if !sp {
				switch r.Intn(3) {
				case 0:
					dh = 0
				case 1:
					dv = 0
				}
			}
			for x := int64(0); x < 1<<uint(dh); x++ {
				for y := int64(0); y < 1<<uint(dh); y++ {
					for f := int64(0); f < 1<<uint(dv); f++ {
						split(ID{s.H + dh, s.X<<uint(dh) + x, s.Y<<uint(dh) + y, s.V + dv, s.F<<uint(dv) + f}, depth+1)
					}
				}
			}
		}
		split(tgt, 0)
		if r.Chance(0.25) {
			// a second, independent partition of the same target on top of the first: columns crossing slabs, cells
			// covered twice by voxels of which neither contains the other
			split(tgt, 0)
		}
	}
	if r.Chance(0.3) && len(out) > 0 {
		out = append(out, out[r.Intn(len(out))]) // duplicate
	}
	if r.Chance(0.3) && !sp { // an entry coarser than the target on one axis
		c := base
		if r.Chance(0.5) && c.H > 0 {
			c.H--
			c.X >>= 1
			c.Y >>= 1
		} else if c.V > 0 {
			c.V--
			c.F >>= 1
		}
		out = append(out, c)
	}
	if r.Chance(0.35) && !sp { // unrelated / overlapping voxels at any zoom within the spread
		for k := r.In(1, 2); k > 0; k-- {
			hh := r.In(maxI(0, h-2), h+spread+1)
			vv := r.In(maxI(0, v-2), v+spread+1)
			if r.Chance(0.5) {
				out = append(out, r.relativeAt(base, hh, vv))
			} else {
				out = append(out, r.randomIDAt(w, hh, vv))
			}
		}
	}
	r.Shuffle(len(out), func(i, j int) { out[i], out[j] = out[j], out[i] })
	if len(out) == 0 {
		out = append(out, base)
	}
	return out
}

func evOverlapExt(t *Tracer, w Win, a, b []ID, arr bool) {
	if !(w.validIDs(a...) && w.validIDs(b...)) {
		return // outside the documented domain: not a case
	}
	ra, rb := w.embedExtList(a), w.embedExtList(b)
	var o string
	var res any
	op := "OverlapExt"
	if arr {
		op = "OverlapExtArr"
		o, res = guard(func() (any, error) { return detector.CheckExtendedSpatialIdsArrayOverlap(ra, rb) })
	} else {
		o, res = guard(func() (any, error) { return detector.CheckExtendedSpatialIdsOverlap(ra[0], rb[0]) })
	}
	var o2 string
	var res2 any
	if arr {
		o2, res2 = guard(func() (any, error) { return detector.CheckExtendedSpatialIdsArrayOverlap(rb, ra) })
	} else {
		o2, res2 = guard(func() (any, error) { return detector.CheckExtendedSpatialIdsOverlap(rb[0], ra[0]) })
	}
	e := w.ev(op, map[string]any{"A": idsArr(a), "B": idsArr(b)})
	e.O, e.Real = o, map[string]any{"A": ra, "B": rb}
	e.R = []any{}
	if o == "ok" && o2 == "ok" {
		e.R = []any{res.(bool), res2.(bool)} // both argument orders
	} else {
		e.Bad = "outcome " + o + "/" + o2
	}
	t.Emit(e, true)
}

func evOverlapSp(t *Tracer, w Win, a, b []ID, arr bool) {
	if !(w.validIDs(a...) && w.validIDs(b...)) {
		return // outside the documented domain: not a case
	}
	ra, rb := w.embedSpList(a), w.embedSpList(b)
	var o, o2 string
	var res, res2 any
	op := "OverlapSp"
	if arr {
		op = "OverlapSpArr"
		o, res = guard(func() (any, error) { return detector.CheckSpatialIdsArrayOverlap(ra, rb) })
		o2, res2 = guard(func() (any, error) { return detector.CheckSpatialIdsArrayOverlap(rb, ra) })
	} else {
		o, res = guard(func() (any, error) { return detector.CheckSpatialIdsOverlap(ra[0], rb[0]) })
		o2, res2 = guard(func() (any, error) { return detector.CheckSpatialIdsOverlap(rb[0], ra[0]) })
	}
	e := w.ev(op, map[string]any{"A": idsSpArr(a), "B": idsSpArr(b)})
	e.O, e.Real = o, map[string]any{"A": ra, "B": rb}
	e.R = []any{}
	if o == "ok" && o2 == "ok" {
		e.R = []any{res.(bool), res2.(bool)}
	} else {
		e.Bad = "outcome " + o + "/" + o2
	}
	t.Emit(e, true)
}

// treeWindow: a same-zoom window whose voxels stay inside the radix-tree
// checks' documented altitude range (+-2^24 m: half the index range).
func (r Rng) treeWindow(depth int64) Win {
	if r.Chance(0.3) {
		return Win{Abs: true}
	}
	w := r.randomWindow(depth, depth, true)
	if w.Abs {
		return w
	}
	half := int64(1) << uint(w.V0-1)
	switch r.Intn(4) {
	case 0:
		w.F0 = -half
	case 1:
		w.F0 = half - 1
	case 2:
		w.F0 = r.Pick(-1, 0)
	default:
		w.F0 = r.In(-half, half-1)
	}
	return w
}

// treeID: a spatial ID inside the tree domain for this window.
func (r Rng) treeID(w Win, d int64) ID {
	z := r.In(0, d)
	if w.Abs && z == 0 {
		z = 1
	}
	id := r.randomIDAt(w, z, z)
	if w.Abs {
		half := int64(1) << uint(z-1)
		id.F = r.edgeIn(-half, half-1)
		if r.Chance(0.3) {
			id.F = r.Pick(-1, 0)
		}
	}
	return id
}

// driveIndexTwins: two merge targets whose indices collide under common (x, y, f) packings: both
// complete (each must merge), complementary halves (nothing may merge), one complete and one child.
func driveIndexTwins(t *Tracer, r Rng, k int) {
	tw := indexTwins()
	w := Win{Abs: true}
	for i := 0; i < k; i++ {
		p := tw[r.Intn(len(tw))]
		if r.Chance(0.5) {
			p.A, p.B = p.B, p.A
		}
		ca, cb := children(p.A), children(p.B)
		var ids []ID
		switch r.Intn(3) {
		case 0:
			ids = append(append(ids, ca...), cb...)
		case 1:
			for j := range ca {
				if ca[j].F%2 == 0 {
					ids = append(ids, ca[j])
				}
				if cb[j].F%2 != 0 {
					ids = append(ids, cb[j])
				}
			}
		default:
			ids = append(append(ids, ca...), cb[r.Intn(8)])
		}
		r.Shuffle(len(ids), func(a, b int) { ids[a], ids[b] = ids[b], ids[a] })
		evMergeExt(t, w, ids, p.A.H, p.A.V)
		evMergeSp(t, w, ids, p.A.H)
		evChangeZoomExt(t, w, ids, p.A.H, p.A.V)
	}
}

func driveMerge(t *Tracer, r Rng, n int) {
	if n >= 100 {
		driveIndexTwins(t, r, 40)
	}
	for i := 0; i < n; i++ {
		if r.Chance(0.7) {
			hD, vD := r.In(0, 5), r.In(0, 5)
			w := r.randomWindow(hD+3, vD+3, false)
			h, v := r.In(0, hD), r.In(0, vD)
			ids := r.mergeCandidates(w, h, v, r.In(1, 2), false)
			if r.Chance(0.15) { // merge target finer than some inputs
				h += r.In(0, 2)
				v += r.In(0, 2)
			}
			evMergeExt(t, w, ids, h, v)
			if i%3 == 0 {
				evMergeSteps(t, w, ids, h, v)
			}
			if m := ids[r.Intn(len(ids))]; m.H >= h && m.V >= v {
				evHigher(t, w, m, r.In(0, m.H-h), r.In(0, m.V-v))
			}
		} else {
			d := r.In(0, 5)
			w := r.randomWindow(d+3, d+3, true)
			z := r.In(0, d)
			ids := r.mergeCandidates(w, z, z, r.In(1, 2), true)
			evMergeSp(t, w, ids, z)
		}
	}
}

// driveHashTwins: lists containing two different IDs that collide under a common 32-bit string hash
func driveHashTwins(t *Tracer, r Rng, k int) {
	sp, ext := hashTwins()
	w := Win{Abs: true}
	for i := 0; i < k; i++ {
		tw := sp[r.Intn(len(sp))]
		if r.Chance(0.5) {
			tw.A, tw.B = tw.B, tw.A
		}
		// the second twin is the only voxel the probe meets
		probe := tw.B
		if r.Chance(0.5) {
			probe = ID{H: tw.B.H + 1, X: tw.B.X*2 + r.In(0, 1), Y: tw.B.Y*2 + r.In(0, 1), V: tw.B.V + 1, F: tw.B.F*2 + r.In(0, 1)}
		}
		evOverlapSp(t, w, []ID{tw.A, tw.B}, []ID{probe}, true)
		te := ext[r.Intn(len(ext))]
		if i == 0 {
			te = ext[len(ext)-1] // the 64-bit twin at least once per run
		}
		evOverlapExt(t, w, []ID{te.A, te.B}, []ID{te.B}, true)
		evChangeZoomExt(t, w, []ID{te.A, te.B}, te.A.H, te.A.V)
		evChangeZoomSp(t, w, []ID{tw.A, tw.B}, tw.A.H)
		evMergeExt(t, w, []ID{te.A, te.B}, te.A.H, te.A.V)
		evNLayer(t, w, []ID{te.A, te.B}, 0, 1)
		// the twins as RESULTS: the east neighbours of the voxels one column to the west
		wa, wb := te.A, te.B
		wa.X--
		wb.X--
		evNLayer(t, w, []ID{wa, wb}, 1, 0)
		evNLayer(t, w, []ID{wb, wa}, 1, 0)
	}
}

func driveOverlap(t *Tracer, r Rng, n int) {
	if n >= 100 {
		driveHashTwins(t, r, 12)
	}
	for i := 0; i < n; i++ {
		switch r.Intn(4) {
		case 0, 1:
			hD, vD := r.In(0, 25), r.In(0, 25)
			if i < n/3 { // small zoom gaps first (a broken overlap check may try to expand huge gaps and die)
				hD, vD = r.In(0, 7), r.In(0, 7)
			}
			w := r.randomWindow(hD, vD, false)
			a := r.randomID(w, hD, vD)
			var b ID
			if r.Chance(0.6) {
				b = r.relative(a, hD, vD)
				if r.Chance(0.4) { // nudge: neighbour of a relative
					b.F += r.Pick(-1, 1)
				}
			} else {
				b = r.randomID(w, hD, vD)
			}
			if r.Chance(0.6) {
				evOverlapExt(t, w, []ID{a}, []ID{b}, false)
			} else {
				la := r.randomIDList(w, hD, vD, 3, false)
				lb := r.randomIDList(w, hD, vD, 3, false)
				switch r.Intn(6) {
				case 0:
					la = nil
				case 1:
					lb = nil
				case 2:
					la = append(la, a)
					lb = append(lb, b)
				}
				evOverlapExt(t, w, la, lb, true)
			}
		default:
			d := r.In(1, 25)
			w := r.treeWindow(d)
			a := r.treeID(w, d)
			var b ID
			if r.Chance(0.6) {
				z := r.In(0, d)
				if w.Abs && z == 0 {
					z = 1
				}
				b = r.relative(a, z, z)
				b.H, b.V = z, z
				b.X, b.Y, b.F = rescale(a.X, a.H, z, r), rescale(a.Y, a.H, z, r), rescale(a.F, a.V, z, r)
				if r.Chance(0.3) {
					b.X++
					if w.Abs && b.X >= int64(1)<<uint(z) {
						b.X = 0
					}
				}
			} else {
				b = r.treeID(w, d)
			}
			if r.Chance(0.6) {
				evOverlapSp(t, w, []ID{a}, []ID{b}, false)
			} else {
				la, lb := []ID{}, []ID{}
				for k := r.Intn(4); k > 0; k-- {
					la = append(la, r.treeID(w, d))
				}
				for k := r.Intn(4); k > 0; k-- {
					lb = append(lb, r.treeID(w, d))
				}
				if r.Chance(0.5) {
					la = append(la, a)
					lb = append(lb, b)
				}
				if w.Abs && r.Chance(0.3) {
					// "index twins" across zooms: another voxel of the first list at a different zoom whose x, y and
					// offset vertical index f + 2^(z-1) are the same NUMBERS as a's (a different, usually disjoint voxel),
					// listed after a and met by the probe alone
					z2 := a.H + r.Pick(-2, -1, 1, 2)
					if z2 >= 1 && z2 <= 28 {
						tw := ID{H: z2, X: a.X, Y: a.Y, V: z2, F: a.F + (int64(1) << uint(a.H-1)) - (int64(1) << uint(z2-1))}
						n2, half := int64(1)<<uint(z2), int64(1)<<uint(z2-1)
						if tw.X < n2 && tw.Y < n2 && tw.F >= -half && tw.F < half {
							la = append(append([]ID{}, a), tw)
							lb = []ID{tw}
						}
					}
				}
				evOverlapSp(t, w, la, lb, true)
			}
		}
	}
}

func init() {
	families["merge"] = driveMerge
	families["overlap"] = driveOverlap
	reg("MergeExt", func(t *Tracer, w Win, a map[string]any) {
		evMergeExt(t, w, decIDs(a["ids"]), decInt(a["h"]), decInt(a["v"]))
	})
	reg("MergeSp", func(t *Tracer, w Win, a map[string]any) {
		evMergeSp(t, w, decSpIDs(a["ids"]), decInt(a["z"]))
	})
	reg("OverlapExt", func(t *Tracer, w Win, a map[string]any) {
		evOverlapExt(t, w, decIDs(a["A"]), decIDs(a["B"]), false)
	})
	reg("OverlapExtArr", func(t *Tracer, w Win, a map[string]any) {
		evOverlapExt(t, w, decIDs(a["A"]), decIDs(a["B"]), true)
	})
	reg("OverlapSp", func(t *Tracer, w Win, a map[string]any) {
		evOverlapSp(t, w, decSpIDs(a["A"]), decSpIDs(a["B"]), false)
	})
	reg("OverlapSpArr", func(t *Tracer, w Win, a map[string]any) {
		evOverlapSp(t, w, decSpIDs(a["A"]), decSpIDs(a["B"]), true)
	})
	reg("G.Merge", func(t *Tracer, w Win, a map[string]any) {
		ids, h, v := decIDs(a["ids"]), decInt(a["h"]), decInt(a["v"])
		evMergeExt(t, w, ids, h, v)
		evMergeSteps(t, w, ids, h, v)
		if h == v && allSameZoom(ids) {
			evMergeSp(t, w.sameZoom(), ids, h)
		}
	})
	reg("G.Overlap", func(t *Tracer, w Win, a map[string]any) {
		ids, b := decIDs(a["ids"]), decID(a["b"])
		evOverlapExt(t, w, ids, []ID{b}, true)
		for _, s := range ids {
			evOverlapExt(t, w, []ID{s}, []ID{b}, false)
		}
		if b.H == b.V && allSameZoom(ids) {
			tw := treeDomainWin(w, append(append([]ID{}, ids...), b))
			if tw != nil {
				evOverlapSp(t, *tw, ids, []ID{b}, true)
				for _, s := range ids {
					evOverlapSp(t, *tw, []ID{s}, []ID{b}, false)
				}
			}
		}
	})
}

// treeDomainWin adapts a replay window so that every embedded ID lies in the
// radix-tree checks' altitude domain; nil when that is impossible (e.g. a
// zoom-0 voxel in absolute coordinates).
func treeDomainWin(w Win, ids []ID) *Win {
	if w.Abs {
		for _, s := range ids {
			if s.H < 1 || s.F < -(int64(1)<<uint(s.H-1)) || s.F >= int64(1)<<uint(s.H-1) {
				return nil
			}
		}
		return &w
	}
	w = w.sameZoom()
	if w.V0 < 2 {
		return nil
	}
	// model f in [-2^v, 2^v): choose F0 so that F0*2^v + f stays within +-2^(V-1)
	half := int64(1) << uint(w.V0-1)
	if w.F0 < -half+1 {
		w.F0 = -half + 1
	}
	if w.F0 > half-2 {
		w.F0 = half - 2
	}
	return &w
}

// evMergeSteps drives the merge's exported building blocks one step at a
// time (NewUnitDividedSpatialID, NewHighSpatialID, HighSpatialID.Merge,
// IsDense) over inputs that are all at least as fine as the target (h, v):
// the groups formed and their density verdicts are the observable state.
func evMergeSteps(t *Tracer, w Win, ids []ID, h, v int64) {
	if !(w.validIDs(ids...)) {
		return // outside the documented domain: not a case
	}
	var el []ID
	mh, mv := h, v
	for _, m := range ids {
		if m.H >= h && m.V >= v {
			el = append(el, m)
			mh, mv = maxI(mh, m.H), maxI(mv, m.V)
		}
	}
	if len(el) == 0 || mergeTooBig(el) {
		return
	}
	groups := map[string]*integrate.HighSpatialID{}
	var order []string
	o, _ := guard(func() (any, error) {
		for _, m := range el {
			s, err := object.NewExtendedSpatialID(w.E(m).String())
			if err != nil {
				return nil, err
			}
			u := integrate.NewUnitDividedSpatialID(s, mh-m.H, mv-m.V)
			hi := integrate.NewHighSpatialID(u, m.H-h, m.V-v)
			if g, ok := groups[hi.ID()]; ok {
				g.Merge(hi)
			} else {
				groups[hi.ID()] = hi
				order = append(order, hi.ID())
			}
		}
		return nil, nil
	})
	e := w.ev("MergeSteps", map[string]any{"ids": idsArr(el), "h": h, "v": v, "mh": mh, "mv": mv})
	e.O, e.Real = o, map[string]any{"ids": w.embedExtList(el), "h": w.H0 + h, "v": w.V0 + v}
	out := []any{}
	if o == "ok" {
		for _, k := range order {
			id, ok := ParseExt(k)
			m, ok2 := w.P(id)
			if !ok || !ok2 {
				e.Bad = "far:" + k
				continue
			}
			out = append(out, []any{m.Arr(), groups[k].IsDense()})
		}
	}
	e.R = out
	t.Emit(e, true)
}

// evHigher: ExtendedSpatialID.Higher on its own (the floor ancestor).
func evHigher(t *Tracer, w Win, m ID, dh, dv int64) {
	if !(w.validIDs(m)) {
		return // outside the documented domain: not a case
	}
	real := w.E(m)
	var got string
	o, _ := guard(func() (any, error) {
		s, err := object.NewExtendedSpatialID(real.String())
		if err != nil {
			return nil, err
		}
		got = s.Higher(dh, dv).ID()
		return nil, nil
	})
	e := w.ev("Higher", map[string]any{"id": m.Arr(), "dh": dh, "dv": dv})
	e.O, e.Real = o, map[string]any{"id": real.String(), "dh": dh, "dv": dv}
	e.R = []any{}
	if o == "ok" {
		e.R = w.projExtList([]string{got}, &e.Bad)
	}
	t.Emit(e, true)
}

func init() {
	reg("MergeSteps", func(t *Tracer, w Win, a map[string]any) {
		evMergeSteps(t, w, decIDs(a["ids"]), decInt(a["h"]), decInt(a["v"]))
	})
	reg("Higher", func(t *Tracer, w Win, a map[string]any) {
		evHigher(t, w, decID(a["id"]), decInt(a["dh"]), decInt(a["dv"]))
	})
}
