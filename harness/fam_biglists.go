package main

// Big inputs: lists of several hundred thousand IDs (beyond any batch size an implementation might
// introduce).  Results of that size are not shipped to TLC entry by entry: both sides of each law are
// real results, abstracted to (count, SHA-256 of the sorted entries), and TLC compares them (X_Law).
//   MergeVolumeIsZoomOut   merging ALL children of N voxels = zooming the children out (the N voxels),
//                          whatever the order of the list (parent by parent / child number by child number)
//   BigListIsUnionOfChunks f(L) = union of f(chunk) over chunks of 700 entries, for the operations that
//                          distribute over union (zoom change, notation converters, quadkey conversion,
//                          point lookup keeps list order: compared as lists)

import (
	"crypto/sha256"
	"fmt"
	"sort"
	"strings"

	"github.com/trajectoryjp/spatial_id_go/v4/common/object"
	"github.com/trajectoryjp/spatial_id_go/v4/detector"
	"github.com/trajectoryjp/spatial_id_go/v4/integrate"
	"github.com/trajectoryjp/spatial_id_go/v4/operated"
	"github.com/trajectoryjp/spatial_id_go/v4/shape"
	"github.com/trajectoryjp/spatial_id_go/v4/transform"
)

func digestSet(ss []string, err error) []string {
	if err != nil {
		return []string{"error"}
	}
	c := append([]string(nil), ss...)
	sort.Strings(c)
	dup := 0
	for i := 1; i < len(c); i++ {
		if c[i] == c[i-1] {
			dup++
		}
	}
	h := sha256.Sum256([]byte(strings.Join(c, "\n")))
	return []string{fmt.Sprint("count=", len(c)), fmt.Sprint("duplicates=", dup), fmt.Sprintf("sha256=%x", h)}
}

func digestList(ss []string, err error) []string {
	if err != nil {
		return []string{"error"}
	}
	h := sha256.Sum256([]byte(strings.Join(ss, "\n")))
	return []string{fmt.Sprint("count=", len(ss)), fmt.Sprintf("sha256(in order)=%x", h)}
}

func uniqueStrings(ss []string) []string {
	m := make(map[string]struct{}, len(ss))
	out := make([]string, 0, len(ss))
	for _, s := range ss {
		if _, ok := m[s]; !ok {
			m[s] = struct{}{}
			out = append(out, s)
		}
	}
	return out
}

// chunked applies f to chunks of 700 entries and concatenates the results.
func chunked(in []string, f func([]string) ([]string, error)) ([]string, error) {
	var out []string
	for i := 0; i < len(in); i += 700 {
		j := i + 700
		if j > len(in) {
			j = len(in)
		}
		r, err := f(append([]string(nil), in[i:j]...))
		if err != nil {
			return nil, err
		}
		out = append(out, r...)
	}
	return out, nil
}

func driveBigLists(t *Tracer, r Rng, n int) {
	for round := 0; round < n; round++ {
		z := r.In(18, 24)
		nz := int64(1) << uint(z)
		x0, y0, f0 := r.In(0, nz-200), r.In(nz/8, nz-nz/8), r.In(-50, 50)
		// N parents in a 3-D block, their 8 children each
		N := r.Pick(33000, 40000, 70000)
		var parents []ID
		for i := int64(0); int64(len(parents)) < N; i++ {
			parents = append(parents, ID{z, x0 + i%64, y0 + (i/64)%64, z, f0 + i/4096})
		}
		byParent := make([]string, 0, 8*N)
		byChild := make([]string, 0, 8*N)
		for _, p := range parents {
			for _, c := range children(p) {
				byParent = append(byParent, c.String())
			}
		}
		for k := 0; k < 8; k++ {
			for _, p := range parents {
				byChild = append(byChild, children(p)[k].String())
			}
		}
		shuffled := append([]string(nil), byParent...)
		r.Shuffle(len(shuffled), func(a, b int) { shuffled[a], shuffled[b] = shuffled[b], shuffled[a] })
		zoomOut := digestSet(integrate.ChangeExtendedSpatialIdsZoom(append([]string(nil), byParent...), z, z))
		for name, in := range map[string][]string{"parent by parent": byParent, "child number by child number": byChild, "shuffled": shuffled} {
			emitLaw(t, "MergeVolumeIsZoomOut", map[string]any{"order": name, "parents": N, "zoom": z},
				digestSet(integrate.MergeExtendedSpatialIds(append([]string(nil), in...), z, z)), zoomOut, "")
		}
		// operations that distribute over union, on the 8N children (in shuffled order, with some repeats)
		big := append(append([]string(nil), shuffled...), shuffled[:5000]...)
		type op struct {
			name string
			f    func([]string) ([]string, error)
			list bool
		}
		sp := func(in []string) []string { out, _ := shape.ConvertExtendedSpatialIdsToSpatialIds(in); return out }
		ops := []op{
			{"ChangeExtendedSpatialIdsZoom (out 1)", func(in []string) ([]string, error) { return integrate.ChangeExtendedSpatialIdsZoom(in, z, z) }, false},
			{"ChangeExtendedSpatialIdsZoom (same zoom)", func(in []string) ([]string, error) { return integrate.ChangeExtendedSpatialIdsZoom(in, z+1, z+1) }, false},
			{"ChangeSpatialIdsZoom (out 2)", func(in []string) ([]string, error) { return integrate.ChangeSpatialIdsZoom(sp(in), z-1) }, false},
			{"ConvertExtendedSpatialIdsToSpatialIds", func(in []string) ([]string, error) { return shape.ConvertExtendedSpatialIdsToSpatialIds(in) }, true},
			{"ConvertSpatialIdsToExtendedSpatialIds", func(in []string) ([]string, error) { return shape.ConvertSpatialIdsToExtendedSpatialIds(sp(in)) }, true},
			{"GetNspatialIdsAroundVoxcels (0, 1)", func(in []string) ([]string, error) { return operated.GetNspatialIdsAroundVoxcels(in, 0, 1) }, false},
			{"ConvertExtendedSpatialIDsToQuadkeysAndVerticalIDs", func(in []string) ([]string, error) {
				g, err := transform.ConvertExtendedSpatialIDsToQuadkeysAndVerticalIDs(in, z, z, 0, 0)
				return pairStrings(g), err
			}, false},
		}
		o := ops[r.Intn(len(ops))]
		whole, err1 := o.f(append([]string(nil), big...))
		parts, err2 := chunked(big, o.f)
		if o.list {
			emitLaw(t, "BigListIsUnionOfChunks", map[string]any{"fn": o.name, "entries": len(big)}, digestList(whole, err1), digestList(parts, err2), "")
		} else {
			emitLaw(t, "BigListIsUnionOfChunks", map[string]any{"fn": o.name, "entries": len(big)}, digestSet(whole, err1), digestSet(uniqueStrings(parts), err2), "")
		}
		// MANY inputs onto ONE output (hundreds of thousands of voxels inside one coarse voxel, tens of thousands of
		// copies of one key / tile): the answer is that of the single coarse voxel / key / tile
		{
			A := parents[r.Intn(len(parents))]
			A.H, A.X, A.Y, A.V, A.F = A.H-6, A.X>>6, A.Y>>6, A.V-6, A.F>>6
			var desc []string // all 2^18 descendants six levels down
			for x := int64(0); x < 64; x++ {
				for y := int64(0); y < 64; y++ {
					for f := int64(0); f < 64; f++ {
						desc = append(desc, ID{A.H + 6, A.X<<6 + x, A.Y<<6 + y, A.V + 6, A.F<<6 + f}.String())
					}
				}
			}
			one := []string{A.String()}
			emitLaw(t, "ManyToOne", map[string]any{"fn": "ChangeExtendedSpatialIdsZoom", "inputs": len(desc)},
				digestSet(integrate.ChangeExtendedSpatialIdsZoom(desc, A.H, A.V)), digestSet(one, nil), "")
			qk := func(in []string) ([]string, error) {
				g, err := transform.ConvertExtendedSpatialIDsToQuadkeysAndVerticalIDs(in, A.H, A.V, 0, 0)
				return pairStrings(g), err
			}
			if A.H >= 1 {
				emitLaw(t, "ManyToOne", map[string]any{"fn": "ConvertExtendedSpatialIDsToQuadkeysAndVerticalIDs", "inputs": len(desc)},
					digestList(qk(desc)), digestList(qk(one)), "")
				copies := make([]string, 70000)
				for i := range copies {
					copies[i] = desc[len(desc)/2]
				}
				emitLaw(t, "ManyToOne", map[string]any{"fn": "ConvertExtendedSpatialIDsToQuadkeysAndVerticalIDs (copies)", "inputs": len(copies)},
					digestList(qk(copies)), digestList(qk(copies[:1])), "")
				emitLaw(t, "ManyToOne", map[string]any{"fn": "MergeExtendedSpatialIds (copies)", "inputs": len(copies)},
					digestSet(integrate.MergeExtendedSpatialIds(copies, A.H+6, A.V+6)), digestSet(copies[:1], nil), "")
				emitLaw(t, "ManyToOne", map[string]any{"fn": "GetNspatialIdsAroundVoxcels (copies)", "inputs": len(copies)},
					digestSet(operated.GetNspatialIdsAroundVoxcels(copies, 1, 1)), digestSet(operated.GetNspatialIdsAroundVoxcels(copies[:1], 1, 1)), "")
			}
			tile, terr := object.NewTileXYZ(A.H+6, A.X<<6, A.Y<<6, 25, 77)
			if terr == nil {
				tiles := make([]*object.TileXYZ, 70000)
				for i := range tiles {
					tiles[i] = tile
				}
				ts := func(in []*object.TileXYZ) ([]string, error) {
					res, err := transform.ConvertTileXYZsToExtendedSpatialIDs(in, 25, 0, 25)
					out := make([]string, len(res))
					for i, x := range res {
						out[i] = x.ID()
					}
					return out, err
				}
				emitLaw(t, "ManyToOne", map[string]any{"fn": "ConvertTileXYZsToExtendedSpatialIDs (copies)", "inputs": len(tiles)},
					digestList(ts(tiles)), digestList(ts(tiles[:1])), "")
			}
		}
		// overlap of a long list with a single probe that meets exactly ONE of its entries, at positions next to every
		// plausible batch border (powers of two, round decimal numbers and their halves): the long call must agree
		// with the disjunction over 700-entry chunks, in both argument orders
		{
			L := 140000
			extL := make([]string, L)
			spL := make([]string, L)
			for i := 0; i < L; i++ { // distinct voxels of one zoom: disjoint from each other
				v := ID{z, x0 + int64(i%400), y0 + int64(i/400), z, f0}
				extL[i], spL[i] = v.String(), v.Sp()
			}
			var pos []int
			for _, b := range []int{1 << 12, 1 << 14, 1 << 15, 1 << 16, 1 << 17, 10000, 20000, 25000, 50000, 100000, 125000} {
				for _, d := range []int{-1, 0} {
					if p := b + d; p >= 0 && p < L {
						pos = append(pos, p)
					}
				}
			}
			pos = append(pos, 0, L-1, int(r.In(0, int64(L-1))))
			r.Shuffle(len(pos), func(a, b int) { pos[a], pos[b] = pos[b], pos[a] })
			for _, p := range pos[:8] {
				for form := 0; form < 2; form++ {
					list, probe := extL, []string{extL[p]}
					check := func(a, b []string) (bool, error) { return detector.CheckExtendedSpatialIdsArrayOverlap(a, b) }
					name := "CheckExtendedSpatialIdsArrayOverlap"
					if form == 1 {
						list, probe = spL, []string{spL[p]}
						check = func(a, b []string) (bool, error) { return detector.CheckSpatialIdsArrayOverlap(a, b) }
						name = "CheckSpatialIdsArrayOverlap"
					}
					whole1, e1 := check(list, probe)
					whole2, e2 := check(probe, list)
					parts := false
					var e3 error
					for i := 0; i < L && e3 == nil; i += 700 {
						var ok bool
						ok, e3 = check(list[i:minI2(i+700, L)], probe)
						parts = parts || ok
					}
					emitLaw(t, "BigListIsUnionOfChunks", map[string]any{"fn": name, "entries": L, "probe_at": p},
						[]string{fmt.Sprint(whole1, e1 != nil), fmt.Sprint(whole2, e2 != nil)}, []string{fmt.Sprint(parts, e3 != nil), fmt.Sprint(parts, e3 != nil)}, "")
				}
			}
		}
		// point lookup on a long list keeps length and order
		nPts := int(r.Pick(300000, 1048579, 1048577, 524291))
		pts := make([]*object.Point, 0, nPts)
		for i := 0; i < nPts; i++ {
			p, _ := object.NewPoint(139+float64(i%1000)*1e-4, 35+float64(i/1000)*1e-4, float64(i%97))
			pts = append(pts, p)
		}
		wholeP, e1 := shape.GetExtendedSpatialIdsOnPoints(pts, z, z)
		var partsP []string
		var e2 error
		for i := 0; i < len(pts) && e2 == nil; i += 700 {
			var rr []string
			rr, e2 = shape.GetExtendedSpatialIdsOnPoints(pts[i:minI2(i+700, len(pts))], z, z)
			partsP = append(partsP, rr...)
		}
		emitLaw(t, "BigListIsUnionOfChunks", map[string]any{"fn": "GetExtendedSpatialIdsOnPoints", "entries": len(pts)}, digestList(wholeP, e1), digestList(partsP, e2), "")
	}
}

func minI2(a, b int) int {
	if a < b {
		return a
	}
	return b
}

func init() { families["biglists"] = driveBigLists }
