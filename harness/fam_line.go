package main

// C06: line voxelisation.  The harness abstracts the real segment to its walk
// (ordered boundary crossings, ties grouped); TLC decides (Line.tla).

import (
	"math"
	"sort"

	"github.com/trajectoryjp/spatial_id_go/v4/common/object"
	"github.com/trajectoryjp/spatial_id_go/v4/shape"
)

type crossing struct {
	t, d       float64 // parameter and its uncertainty
	axis, step int
}

// lineWalk computes the grouped moves of the segment from voxel sv to voxel ev
// (real indices, same zooms).  Coordinates are the stored ones (after SetLat).
func lineWalk(lon0, lat0, alt0, lon1, lat1, alt1 float64, sv, ev ID) [][]int64 {
	H, V := sv.H, sv.V
	cs := []crossing{}
	add := func(axis int, from, to int64, coord func(i int64) float64, c0, c1, tol float64) {
		if from == to {
			return
		}
		den := c1 - c0
		step := 1
		if to < from {
			step = -1
		}
		for i := from; i != to; i += int64(step) {
			b := i + 1 // boundary between i and i+1
			if step < 0 {
				b = i // boundary between i-1 and i
			}
			var t, d float64
			if den == 0 {
				t, d = 0.5, 1
			} else {
				t = (coord(b) - c0) / den
				d = math.Abs(tol / den)
			}
			cs = append(cs, crossing{t, d, axis, step})
		}
	}
	tolLon := 4e-13
	tolLat := 1.3e-10
	tolAlt := 8*math.Max(math.Abs(alt0), math.Abs(alt1))*2.3e-16 + 1e-12
	add(0, sv.X, ev.X, func(i int64) float64 { return gammaLon(i, H) }, lon0, lon1, tolLon)
	add(1, sv.Y, ev.Y, func(k int64) float64 { return gammaLat(k, H) }, lat0, lat1, tolLat)
	add(2, sv.F, ev.F, func(j int64) float64 { return gammaAlt(j, V) }, alt0, alt1, tolAlt)
	// merge overlapping uncertainty intervals (sorted by interval start)
	sort.SliceStable(cs, func(i, j int) bool { return cs[i].t-cs[i].d < cs[j].t-cs[j].d })
	moves := [][]int64{}
	var hi float64
	for i, c := range cs {
		if i == 0 || c.t-c.d > hi {
			moves = append(moves, []int64{0, 0, 0})
			hi = c.t + c.d
		} else if c.t+c.d > hi {
			hi = c.t + c.d
		}
		moves[len(moves)-1][c.axis] += int64(c.step)
	}
	return moves
}

// realCoord builds real coordinates from fractional voxel indices at (H, V).
func realCoord(xf, yf, ff float64, H, V int64) (lon, lat, alt float64) {
	lon = xf*360/math.Ldexp(1, int(H)) - 180
	w := yf / math.Ldexp(1, int(H))
	lat = math.Atan(math.Sinh(math.Pi*(1-2*w))) * 180 / math.Pi
	alt = ff * math.Ldexp(1, int(25-V))
	return
}

func relArr(id, base ID) []int64 { return []int64{id.X - base.X, id.Y - base.Y, id.F - base.F} }

// axisSegment: a segment of about n voxels parallel to a grid axis (1 east-west, 2 north-south,
// 3 vertical) at zooms (H, V), with both ends well inside their voxels on the other two axes.
func (r Rng) axisSegment(axis int, n int64, H, V int64) (lon0, lat0, alt0, lon1, lat1, alt1 float64) {
	nh := int64(1) << uint(H)
	x0 := float64(r.In(n+2, nh-n-3)) + 0.3 + 0.4*r.Float64()
	y0 := float64(r.In(nh/8+n, nh-nh/8-n)) + 0.3 + 0.4*r.Float64()
	f0 := float64(r.In(-50, 50)) + 0.3 + 0.4*r.Float64()
	x1, y1, f1 := x0, y0, f0
	d := float64(n) * float64(r.Pick(-1, 1))
	switch axis {
	case 1:
		x1 += d
	case 2:
		y1 += d
	default:
		f1 += d
	}
	lon0, lat0, alt0 = realCoord(x0, y0, f0, H, V)
	lon1, lat1, alt1 = realCoord(x1, y1, f1, H, V)
	switch axis { // exactly parallel: the other two coordinates bit-identical
	case 1:
		lat1, alt1 = lat0, alt0
	case 2:
		lon1, alt1 = lon0, alt0
	default:
		lon1, lat1 = lon0, lat0
	}
	return
}

// evLineAxis: a long axis-parallel segment; recorded relative to the start voxel.
func evLineAxis(t *Tracer, axis int, lon0, lat0, alt0, lon1, lat1, alt1 float64, H, V int64) {
	p0, err0 := object.NewPoint(lon0, lat0, alt0)
	p1, err1 := object.NewPoint(lon1, lat1, alt1)
	if err0 != nil || err1 != nil {
		return
	}
	ends, err := shape.GetExtendedSpatialIdsOnPoints([]*object.Point{p0, p1}, H, V)
	if err != nil || len(ends) != 2 {
		return
	}
	sv, ok0 := ParseExt(ends[0])
	ev, ok1 := ParseExt(ends[1])
	if !ok0 || !ok1 {
		return
	}
	d := relArr(ev, sv)
	for i := 0; i < 3; i++ {
		if i != axis-1 && d[i] != 0 {
			return // (a stored latitude cut into the next row: not an axis-parallel case after all)
		}
	}
	done := lineFlight(p0, p1, H, V)
	o, res := guard(func() (any, error) { return shape.GetExtendedSpatialIdsOnLine(p0, p1, H, V) })
	done()
	e := absW.ev("LineAxis", map[string]any{"axis": axis, "n": d[axis-1],
		"p0": hexTriple(lon0, lat0, alt0), "p1": hexTriple(lon1, lat1, alt1), "H": H, "V": V})
	e.O = o
	e.Real = map[string]any{"start": ends[0], "end": ends[1]}
	out := []any{}
	if o == "ok" {
		for _, s := range strs(res) {
			id, ok := ParseExt(s)
			if !ok || id.H != H || id.V != V {
				e.Bad = "malformed or wrong zoom: " + s
				continue
			}
			out = append(out, relArr(id, sv))
		}
	} else {
		e.Bad = "outcome " + o
	}
	e.R = out
	t.Emit(e, true)
}

// evLineAxisCount: a very long axis-parallel segment, recorded by counts (see Line.tla, LineAxisCountAccept).
func evLineAxisCount(t *Tracer, axis int, lon0, lat0, alt0, lon1, lat1, alt1 float64, H, V int64) {
	p0, err0 := object.NewPoint(lon0, lat0, alt0)
	p1, err1 := object.NewPoint(lon1, lat1, alt1)
	if err0 != nil || err1 != nil {
		return
	}
	ends, err := shape.GetExtendedSpatialIdsOnPoints([]*object.Point{p0, p1}, H, V)
	if err != nil || len(ends) != 2 {
		return
	}
	sv, ok0 := ParseExt(ends[0])
	ev, ok1 := ParseExt(ends[1])
	if !ok0 || !ok1 {
		return
	}
	d := relArr(ev, sv)
	for i := 0; i < 3; i++ {
		if i != axis-1 && d[i] != 0 {
			return
		}
	}
	done := lineFlight(p0, p1, H, V)
	o, res := guard(func() (any, error) { return shape.GetExtendedSpatialIdsOnLine(p0, p1, H, V) })
	done()
	e := absW.ev("LineAxisCount", map[string]any{"axis": axis, "n": d[axis-1],
		"p0": hexTriple(lon0, lat0, alt0), "p1": hexTriple(lon1, lat1, alt1), "H": H, "V": V})
	e.O = o
	e.Real = map[string]any{"start": ends[0], "end": ends[1]}
	cnt := map[string]any{"entries": 0, "distinct": 0, "lo": 0, "hi": 0, "offaxis": 0}
	if o == "ok" {
		seen := map[string]struct{}{}
		var lo, hi, off int64
		for _, s := range strs(res) {
			id, ok := ParseExt(s)
			if !ok || id.H != H || id.V != V {
				e.Bad = "malformed or wrong zoom: " + s
				continue
			}
			seen[s] = struct{}{}
			rel := relArr(id, sv)
			for i := 0; i < 3; i++ {
				if i != axis-1 && rel[i] != 0 {
					off++
				}
			}
			lo, hi = minI(lo, rel[axis-1]), maxI(hi, rel[axis-1])
		}
		cnt = map[string]any{"entries": len(strs(res)), "distinct": len(seen), "lo": lo, "hi": hi, "offaxis": off}
	} else {
		e.Bad = "outcome " + o
	}
	e.R = cnt
	t.Emit(e, true)
}

func evLine(t *Tracer, lon0, lat0, alt0, lon1, lat1, alt1 float64, H, V int64, sp bool) {
	p0, err0 := object.NewPoint(lon0, lat0, alt0)
	p1, err1 := object.NewPoint(lon1, lat1, alt1)
	if err0 != nil || err1 != nil {
		return
	}
	ends, err := shape.GetExtendedSpatialIdsOnPoints([]*object.Point{p0, p1}, H, V)
	if err != nil || len(ends) != 2 {
		return
	}
	sv, ok0 := ParseExt(ends[0])
	ev, ok1 := ParseExt(ends[1])
	if !ok0 || !ok1 {
		// the voxels of the end points are not well-formed IDs: nothing the specification accepts
		e := absW.ev("Line", map[string]any{"end": []int64{0, 0, 0}, "moves": []any{}, "retr": []any{},
			"p0": hexTriple(lon0, lat0, alt0), "p1": hexTriple(lon1, lat1, alt1), "H": H, "V": V})
		e.O, e.R = "ok", []any{}
		e.Bad = "malformed end voxel: " + ends[0] + " " + ends[1]
		t.Emit(e, true)
		return
	}
	if abs64(ev.X-sv.X)+abs64(ev.Y-sv.Y)+abs64(ev.F-sv.F) > 160 {
		return // cost bound: a few hundred voxels at most
	}
	moves := lineWalk(p0.Lon(), p0.Lat(), p0.Alt(), p1.Lon(), p1.Lat(), p1.Alt(), sv, ev)
	var o string
	var res any
	before := pointBits([]*object.Point{p0, p1})
	op := "Line"
	if sp {
		op = "LineSp"
		done := lineFlight(p0, p1, H, H)
		o, res = guard(func() (any, error) { return shape.GetSpatialIdsOnLine(p0, p1, H) })
		done()
	} else {
		done := lineFlight(p0, p1, H, V)
		o, res = guard(func() (any, error) { return shape.GetExtendedSpatialIdsOnLine(p0, p1, H, V) })
		done()
	}
	modified := pointBits([]*object.Point{p0, p1}) != before
	// the voxels of the end points when they are stored once more (known finding D11)
	retr := [][]int64{{0, 0, 0}, relArr(ev, sv)}
	if q0, e0 := object.NewPoint(p0.Lon(), p0.Lat(), p0.Alt()); e0 == nil {
		if q1, e1 := object.NewPoint(p1.Lon(), p1.Lat(), p1.Alt()); e1 == nil {
			if again, e2 := shape.GetExtendedSpatialIdsOnPoints([]*object.Point{q0, q1}, H, V); e2 == nil && len(again) == 2 {
				a0, okA := ParseExt(again[0])
				a1, okB := ParseExt(again[1])
				if okA && okB {
					retr = [][]int64{relArr(a0, sv), relArr(a1, sv)}
				}
			}
		}
	}
	e := absW.ev(op, map[string]any{"end": relArr(ev, sv), "moves": moves, "retr": retr,
		"p0": hexTriple(lon0, lat0, alt0), "p1": hexTriple(lon1, lat1, alt1), "H": H, "V": V})
	e.O = o
	e.Real = map[string]any{"start": ends[0], "end": ends[1]}
	e.R = []any{}
	if modified {
		e.Bad = pointsModified
	}
	if o != "ok" {
		e.Bad = "outcome " + o
	} else {
		out := []any{}
		for _, s := range strs(res) {
			var id ID
			var ok bool
			if sp {
				id, ok = ParseSp(s)
			} else {
				id, ok = ParseExt(s)
			}
			if !ok || id.H != H || id.V != V {
				e.Bad = "malformed or wrong zoom: " + s
				continue
			}
			r := relArr(id, sv)
			if abs64(r[0]) >= farLimit || abs64(r[1]) >= farLimit || abs64(r[2]) >= farLimit {
				e.Bad = "far: " + s
				continue
			}
			out = append(out, r)
		}
		e.R = out
	}
	t.Emit(e, len(moves) > 0)
}

// lineCase draws a segment of at most ~n voxels per axis.
func (r Rng) lineCase() (lon0, lat0, alt0, lon1, lat1, alt1 float64, H, V int64) {
	H, V = r.In(0, 35), r.In(0, 35)
	switch r.Intn(6) {
	case 0:
		H = r.Pick(30, 31, 32, 35) // horizontal threshold switch
	case 1:
		V = r.Pick(33, 34, 35) // vertical threshold switch
	case 2:
		H, V = r.In(0, 6), r.In(0, 6)
	}
	nh := math.Ldexp(1, int(H))
	nv := math.Ldexp(1, int(V))
	n := float64(r.In(0, 12))
	if r.Chance(0.15) {
		n = float64(r.In(13, 40))
	}
	x0 := r.Float64() * nh
	y0 := r.Float64() * nh
	f0 := (r.Float64()*2 - 1) * nv
	switch r.Intn(8) {
	case 0: // near the northern / southern latitude limit
		y0 = r.Float64() * math.Min(nh, 3)
		if r.Chance(0.5) {
			y0 = nh - y0
		}
	case 1: // around the ground plane
		f0 = r.Float64()*4 - 2
	case 2: // world edges
		x0 = r.Float64() * math.Min(nh, 2)
		if r.Chance(0.5) {
			x0 = nh - x0
		}
		if r.Chance(0.3) { // within 1e-10 .. 1e-12 degrees of longitude +180, still west of it
			x0 = nh * (1 - math.Ldexp(1, -int(r.In(41, 46))))
		}
	}
	dx, dy, df := (r.Float64()*2-1)*n, (r.Float64()*2-1)*n, (r.Float64()*2-1)*n
	switch r.Intn(8) {
	case 0:
		dy, df = 0, 0 // axis-parallel
	case 1:
		dx, df = 0, 0
	case 2:
		dx, dy = 0, 0
	case 3: // diagonal through voxel corners (exact in x and f)
		k := math.Round(n/2) + 1
		x0, f0 = math.Floor(x0), math.Floor(f0)
		dx, df = k, k*float64(r.Pick(-1, 1))
		if r.Chance(0.5) {
			dy = 0
		}
	case 4:
		dx, dy, df = dx/8, dy/8, df/8 // short: often a single voxel
	}
	x1, y1, f1 := x0+dx, y0+dy, f0+df
	clamp := func(v, lo, hi float64) float64 { return math.Max(lo, math.Min(hi, v)) }
	// (longitude exactly +180 is folded to -180 by the library: such a segment ends across the
	// antimeridian from where it arrives, which C06's "straight segment" does not cover)
	x1, y1, f1 = clamp(x1, 0, nh*(1-math.Ldexp(1, -46))), clamp(y1, 0, nh), clamp(f1, -nv, nv)
	x0 = clamp(x0, 0, nh*(1-math.Ldexp(1, -46)))
	lon0, lat0, alt0 = realCoord(x0, y0, f0, H, V)
	lon1, lat1, alt1 = realCoord(x1, y1, f1, H, V)
	cl := func(v float64) float64 { return clamp(v, -latLimit, latLimit) }
	lat0, lat1 = cl(lat0), cl(lat1)
	if math.Abs(alt0) < math.Ldexp(1, int(25-V)) && r.Chance(0.2) {
		alt0 = math.Copysign(0, -1) // negative zero: still altitude 0
	}
	if r.Chance(0.15) {
		// way points as they are written down: a fixed number of decimals, altitudes in half metres / feet
		p := math.Pow(10, float64(r.In(4, 10)))
		rd := func(v float64) float64 { return math.Round(v*p) / p }
		lon0, lat0, lon1, lat1 = rd(lon0), cl(rd(lat0)), rd(lon1), cl(rd(lat1))
		if lon0 >= 180 || lon1 >= 180 {
			lon0, lon1 = math.Min(lon0, 179.9999), math.Min(lon1, 179.9999)
		}
		q := []float64{0.5, 0.3048, 0.1, 1}[r.Intn(4)]
		alt0, alt1 = math.Round(alt0/q)*q, math.Round(alt1/q)*q
		a := math.Ldexp(1, 25)
		alt0, alt1 = clamp(alt0, -a, a), clamp(alt1, -a, a)
	}
	return
}

// knownLineCases: inputs of recorded findings (known_findings.json), replayed
// at the start of every run so that the finding is reported deterministically.
var knownLineCases = [][8]uint64{
	// D11: north-south segment at zoom 35 / lat 84.38: re-stored start latitude falls into the next row
	{0x40548c64cf9b9b90, 0x4055181aa4e372be, 0xc159a4fdc6602b20, 0x40548c64cf9b9b90, 0x4055181aa4dbe2de, 0xc159a4fdc6602b20, 35, 1},
}

// evLineLong: a long segment in general position (see Line.tla, LineLongAccept).
func evLineLong(t *Tracer, lon0, lat0, alt0, lon1, lat1, alt1 float64, H, V int64) {
	p0, err0 := object.NewPoint(lon0, lat0, alt0)
	p1, err1 := object.NewPoint(lon1, lat1, alt1)
	if err0 != nil || err1 != nil {
		return
	}
	ends, err := shape.GetExtendedSpatialIdsOnPoints([]*object.Point{p0, p1}, H, V)
	if err != nil || len(ends) != 2 {
		return
	}
	sv, ok0 := ParseExt(ends[0])
	ev, ok1 := ParseExt(ends[1])
	if !ok0 || !ok1 {
		return
	}
	done := lineFlight(p0, p1, H, V)
	o, res := guard(func() (any, error) { return shape.GetExtendedSpatialIdsOnLine(p0, p1, H, V) })
	done()
	e := absW.ev("LineLong", map[string]any{"end": relArr(ev, sv),
		"p0": hexTriple(lon0, lat0, alt0), "p1": hexTriple(lon1, lat1, alt1), "H": H, "V": V})
	e.O = o
	e.Real = map[string]any{"start": ends[0], "end": ends[1]}
	e.R = []any{}
	e.A["off"] = []any{}
	if o != "ok" {
		e.Bad = "outcome " + o
		t.Emit(e, true)
		return
	}
	a := [3]float64{p0.Lon(), p0.Lat(), p0.Alt()}
	d := [3]float64{p1.Lon() - a[0], p1.Lat() - a[1], p1.Alt() - a[2]}
	meets := func(id ID) bool {
		lo := [3]float64{gammaLon(id.X, H), gammaLat(id.Y+1, H), gammaAlt(id.F, V)}
		hi := [3]float64{gammaLon(id.X+1, H), gammaLat(id.Y, H), gammaAlt(id.F+1, V)}
		t0, t1 := 0.0, 1.0
		for i := 0; i < 3; i++ {
			eps := 0.002*(hi[i]-lo[i]) + 1e-12
			l, h := lo[i]-eps, hi[i]+eps
			if d[i] == 0 {
				if a[i] < l || a[i] > h {
					return false
				}
				continue
			}
			ta, tb := (l-a[i])/d[i], (h-a[i])/d[i]
			if ta > tb {
				ta, tb = tb, ta
			}
			t0, t1 = math.Max(t0, ta), math.Min(t1, tb)
		}
		return t0 <= t1
	}
	sg := func(v int64) int64 {
		if v > 0 {
			return 1
		}
		if v < 0 {
			return -1
		}
		return 0
	}
	dir := relArr(ev, sv)
	type item struct {
		rel  []int64
		prog int64
		off  bool
	}
	var items []item
	off := []any{}
	for _, s := range strs(res) {
		id, ok := ParseExt(s)
		if !ok || id.H != H || id.V != V {
			e.Bad = "malformed or wrong zoom: " + s
			continue
		}
		rel := relArr(id, sv)
		items = append(items, item{rel, sg(dir[0])*rel[0] + sg(dir[1])*rel[1] + sg(dir[2])*rel[2], !meets(id)})
	}
	// a total order (progress, then coordinates): the recorded event does not depend on the order of the result
	sort.Slice(items, func(i, j int) bool {
		a, b := items[i], items[j]
		if a.prog != b.prog {
			return a.prog < b.prog
		}
		for k := 0; k < 3; k++ {
			if a.rel[k] != b.rel[k] {
				return a.rel[k] < b.rel[k]
			}
		}
		return false
	})
	out := make([]any, len(items))
	for i, it := range items {
		out[i] = it.rel
		if it.off && len(off) < 20 {
			off = append(off, it.rel)
		}
	}
	e.R, e.A["off"] = out, off
	t.Emit(e, true)
}

// evLineTouch: a segment one of whose end points has longitude exactly +180 (see TraceOps.X_LineTouch).
func evLineTouch(t *Tracer, lon0, lat0, alt0, lon1, lat1, alt1 float64, H, V int64) {
	p0, err0 := object.NewPoint(lon0, lat0, alt0)
	p1, err1 := object.NewPoint(lon1, lat1, alt1)
	if err0 != nil || err1 != nil {
		return
	}
	done := lineFlight(p0, p1, H, V)
	o, res := guard(func() (any, error) { return shape.GetExtendedSpatialIdsOnLine(p0, p1, H, V) })
	done()
	e := absW.ev("LineTouch", map[string]any{"p0": hexTriple(lon0, lat0, alt0), "p1": hexTriple(lon1, lat1, alt1), "H": H, "V": V,
		"off": []any{}, "n": 0, "distinct": 0})
	e.O = o
	e.R = []any{}
	if o != "ok" {
		e.Bad = "outcome " + o
		t.Emit(e, true)
		return
	}
	a := [3]float64{p0.Lon(), p0.Lat(), p0.Alt()}
	d := [3]float64{p1.Lon() - a[0], p1.Lat() - a[1], p1.Alt() - a[2]}
	meets := func(id ID, turn float64) bool {
		lo := [3]float64{gammaLon(id.X, H) + turn, gammaLat(id.Y+1, H), gammaAlt(id.F, V)}
		hi := [3]float64{gammaLon(id.X+1, H) + turn, gammaLat(id.Y, H), gammaAlt(id.F+1, V)}
		t0, t1 := 0.0, 1.0
		for i := 0; i < 3; i++ {
			eps := 0.002*(hi[i]-lo[i]) + 1e-10
			l, h := lo[i]-eps, hi[i]+eps
			if d[i] == 0 {
				if a[i] < l || a[i] > h {
					return false
				}
				continue
			}
			ta, tb := (l-a[i])/d[i], (h-a[i])/d[i]
			if ta > tb {
				ta, tb = tb, ta
			}
			t0, t1 = math.Max(t0, ta), math.Min(t1, tb)
		}
		return t0 <= t1
	}
	seen := map[string]struct{}{}
	var offs []string
	for _, s := range strs(res) {
		seen[s] = struct{}{}
		id, ok := ParseExt(s)
		if !ok || id.H != H || id.V != V {
			e.Bad = "malformed or wrong zoom: " + s
			continue
		}
		if !meets(id, 0) && !meets(id, 360) && !meets(id, -360) {
			offs = append(offs, s)
		}
	}
	sort.Strings(offs)
	off := []any{}
	for i, s := range offs {
		if i < 10 {
			off = append(off, s)
		}
	}
	e.A["off"], e.A["n"], e.A["distinct"] = off, len(strs(res)), len(seen)
	t.Emit(e, true)
}

// driveLineTouch: segments from longitude exactly +180 (tracks normalised to (-180, 180], data cut at the antimeridian)
func driveLineTouch(t *Tracer, r Rng, k int) {
	for i := 0; i < k; i++ {
		H, V := r.In(2, 11), r.In(0, 25)
		lat := float64(r.In(-8000, 8000)) / 100
		alt := float64(r.In(-100, 2000))
		var lon1 float64
		switch r.Intn(3) {
		case 0: // the other end in the first column, just across the antimeridian
			lon1 = -180 + 360/math.Ldexp(1, int(H))*r.Float64()
		case 1: // the other end in the last column
			lon1 = 180 - 360/math.Ldexp(1, int(H))*r.Float64()
		default:
			lon1 = -180 + 360*r.Float64()
		}
		lat1 := lat
		if r.Chance(0.5) {
			lat1 = lat + float64(r.In(-300, 300))/100
		}
		alt1 := alt + float64(r.In(-50, 400))
		if r.Chance(0.5) {
			evLineTouch(t, 180, lat, alt, lon1, lat1, alt1, H, V)
		} else {
			evLineTouch(t, lon1, lat1, alt1, 180, lat, alt, H, V)
		}
	}
}

// driveLongOblique: long segments in general position, in pairs between the same two end voxels (the
// second leg enters and leaves the end voxels at other places, so it runs about a voxel beside the first)
func driveLongOblique(t *Tracer, r Rng, k int) {
	for i := 0; i < k; i++ {
		H, V := r.In(20, 27), r.In(20, 27)
		nh := float64(int64(1) << uint(H))
		n := float64(r.Pick(1100, 1500, 2500, 4100, 4500, 6000))
		x0 := math.Floor(nh*0.1 + r.Float64()*nh*0.8)
		y0 := math.Floor(nh*0.2 + r.Float64()*nh*0.6)
		f0 := math.Floor(r.Float64()*200 - 100)
		a, b, c := 0.1+r.Float64(), 0.1+r.Float64(), 0.1+r.Float64()
		s := n / (a + b + c)
		sg := func() float64 { return float64(r.Pick(-1, 1)) }
		dx, dy, df := math.Round(sg()*a*s), math.Round(sg()*b*s), math.Round(sg()*c*s)
		for leg := 0; leg < 2; leg++ {
			u, w2 := 0.1+0.8*r.Float64(), 0.1+0.8*r.Float64() // position inside the end voxels
			lon0, lat0, alt0 := realCoord(x0+u, y0+w2, f0+u, H, V)
			lon1, lat1, alt1 := realCoord(x0+dx+w2, y0+dy+u, f0+df+w2, H, V)
			evLineLong(t, lon0, lat0, alt0, lon1, lat1, alt1, H, V)
		}
	}
}

func driveLongLines(t *Tracer, r Rng, k int) {
	driveLongOblique(t, r, 2+k/5)
	for i := 0; i < 1+k/10; i++ { // a flight leg of a hundred kilometres at metre resolution
		n := r.Pick(65535, 65536, 65537, 131071, 131072, 131073, r.In(66000, 140000), r.In(140000, 300000))
		axis := 1 + r.Intn(3)
		H, V := r.In(22, 27), r.In(22, 27)
		lon0, lat0, alt0, lon1, lat1, alt1 := r.axisSegment(axis, n, H, V)
		evLineAxisCount(t, axis, lon0, lat0, alt0, lon1, lat1, alt1, H, V)
	}
	for i := 0; i < k; i++ {
		// lengths around the powers of two where an implementation might switch strategy, and beyond
		n := r.Pick(1023, 1024, 1025, 2047, 2048, 2049, 4095, 4096, 4097, 8191, 8192, 8193, r.In(1000, 12000), r.In(4097, 9000))
		axis := 1 + r.Intn(3)
		H, V := r.In(20, 28), r.In(20, 28)
		lon0, lat0, alt0, lon1, lat1, alt1 := r.axisSegment(axis, n, H, V)
		evLineAxis(t, axis, lon0, lat0, alt0, lon1, lat1, alt1, H, V)
	}
}

func driveLine(t *Tracer, r Rng, n int) {
	if n >= 100 {
		driveLineTouch(t, r, n/60)
		driveLongLines(t, r, n/300)
	}
	fb := math.Float64frombits
	for _, c := range knownLineCases {
		evLine(t, fb(c[0]), fb(c[1]), fb(c[2]), fb(c[3]), fb(c[4]), fb(c[5]), int64(c[6]), int64(c[7]), false)
	}
	for i := 0; i < n; i++ {
		lon0, lat0, alt0, lon1, lat1, alt1, H, V := r.lineCase()
		sp := r.Chance(0.2)
		if sp {
			V = H
			// altitudes were drawn for V: rescale into the valid range
			alt0, alt1 = math.Max(-math.Ldexp(1, 25), math.Min(math.Ldexp(1, 25), alt0)), math.Max(-math.Ldexp(1, 25), math.Min(math.Ldexp(1, 25), alt1))
			if math.Abs(alt1-alt0) > 40*math.Ldexp(1, int(25-V)) {
				alt1 = alt0 + (r.Float64()*2-1)*12*math.Ldexp(1, int(25-V))
			}
		}
		evLine(t, lon0, lat0, alt0, lon1, lat1, alt1, H, V, sp)
	}
}

func init() {
	families["line"] = driveLine
	rerunLine := func(sp bool) execFn {
		return func(t *Tracer, w Win, a map[string]any) {
			var b [6]uint64
			s0, _ := a["p0"].(string)
			s1, _ := a["p1"].(string)
			n0, _ := sscanHex3(s0, &b[0], &b[1], &b[2])
			n1, _ := sscanHex3(s1, &b[3], &b[4], &b[5])
			if n0 != 3 || n1 != 3 {
				return
			}
			f := math.Float64frombits
			evLine(t, f(b[0]), f(b[1]), f(b[2]), f(b[3]), f(b[4]), f(b[5]), decInt(a["H"]), decInt(a["V"]), sp)
		}
	}
	reg("Line", rerunLine(false))
	reg("LineSp", rerunLine(true))
}


// lineFlight registers the call that is about to be made with the watchdog (core.go): a voxelisation that does not
// come back, or allocates without bound, is recorded as a `LineCall` event that no clause accepts, and re-executed.
func lineFlight(p0, p1 *object.Point, H, V int64) func() {
	e := absW.ev("LineCall", map[string]any{"p0": hexTriple(p0.Lon(), p0.Lat(), p0.Alt()), "p1": hexTriple(p1.Lon(), p1.Lat(), p1.Alt()), "H": H, "V": V})
	inFlight = &e
	return func() { inFlight = nil }
}

func evLineCall(t *Tracer, p0, p1 *object.Point, H, V int64) {
	done := lineFlight(p0, p1, H, V)
	e := *inFlight
	o, res := guard(func() (any, error) { return shape.GetExtendedSpatialIdsOnLine(p0, p1, H, V) })
	done()
	e.O = o
	e.R = []any{int64(len(strs(res)))}
	if o == "panic" {
		e.Bad = "panic"
	}
	t.Emit(e, true)
}

func init() {
	reg("LineCall", func(t *Tracer, w Win, a map[string]any) {
		pts := []*object.Point{}
		for _, k := range []string{"p0", "p1"} {
			var b [3]uint64
			s, _ := a[k].(string)
			if n, _ := sscanHex3(s, &b[0], &b[1], &b[2]); n != 3 {
				return
			}
			p, err := object.NewPoint(math.Float64frombits(b[0]), math.Float64frombits(b[1]), math.Float64frombits(b[2]))
			if err != nil {
				return
			}
			pts = append(pts, p)
		}
		evLineCall(t, pts[0], pts[1], decInt(a["H"]), decInt(a["V"]))
	})
}
