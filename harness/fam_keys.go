package main

// C11 (quadkeys, index form), C12 (altitude keys), C13 (tile keys), C17
// (binary-subdivision altitude IDs).  Horizontal indices cross the boundary
// as bit sequences (representation change only; Keys.tla works on them).

import (
	"fmt"
	"math"

	"github.com/trajectoryjp/spatial_id_go/v4/common/object"
	"github.com/trajectoryjp/spatial_id_go/v4/transform"
)

// BID is an ID whose horizontal part is absolute (real zoom, real x / y).
type BID struct {
	H, X, Y int64 // real
	V, F    int64 // model (window V0 / F0)
}

func bitsOf(x, n int64) []int64 {
	out := make([]int64, n)
	for i := int64(0); i < n; i++ {
		out[i] = (x >> uint(n-1-i)) & 1
	}
	return out
}

func (b BID) Arr() []any { return []any{b.H, bitsOf(b.X, b.H), bitsOf(b.Y, b.H), b.V, b.F} }

func bidsArr(bs []BID) []any {
	out := make([]any, len(bs))
	for i, b := range bs {
		out[i] = b.Arr()
	}
	return out
}

func (w Win) realBID(b BID) ID {
	return ID{H: b.H, X: b.X, Y: b.Y, V: w.V0 + b.V, F: w.F0<<uint(b.V) + b.F}
}

// quadDigits: base-4 digits (most significant first) of key, padded to zoom;
// ok=false if the key does not fit into zoom digits.
func quadDigits(key, zoom int64) ([]int64, bool) {
	if key < 0 || zoom < 0 || zoom > 31 {
		return nil, false
	}
	out := make([]int64, zoom)
	for i := zoom - 1; i >= 0; i-- {
		out[i] = key & 3
		key >>= 2
	}
	return out, key == 0
}

func digitsToKey(d []int64) int64 {
	var k int64
	for _, c := range d {
		k = k<<2 | c
	}
	return k
}

// projBIDList parses real extended IDs into <<h, xbits, ybits, v, f>>.
func (w Win) projBIDList(ss []string, sp bool, bad *string) []any {
	out := make([]any, 0, len(ss))
	for _, s := range ss {
		var id ID
		var ok bool
		if sp {
			id, ok = ParseSp(s)
		} else {
			id, ok = ParseExt(s)
		}
		if !ok || id.H < 0 || id.H > 35 || id.X < 0 || id.Y < 0 || id.X >= 1<<uint(id.H) || id.Y >= 1<<uint(id.H) {
			*bad = "malformed or out of range:" + s
			continue
		}
		v := id.V - w.V0
		if v < 0 || v > 40 {
			*bad = "far:" + s
			continue
		}
		f := id.F - w.F0<<uint(v)
		if abs64(f) >= farLimit {
			*bad = "far:" + s
			continue
		}
		out = append(out, []any{id.H, bitsOf(id.X, id.H), bitsOf(id.Y, id.H), v, f})
	}
	return out
}

func fstr(x float64) string { return fmt.Sprintf("%016x", math.Float64bits(x)) }

// ---- C11: index form ---------------------------------------------------------
func evExtToQK(t *Tracer, w Win, ids []BID, hz, vz int64, sp bool) {
	real := make([]string, len(ids))
	for i, b := range ids {
		if sp {
			real[i] = w.realBID(b).Sp()
		} else {
			real[i] = w.realBID(b).String()
		}
	}
	real = spare(real)
	snap := append([]string(nil), real...)
	const hgt = 0.0 // maxHeight == minHeight selects the index form
	var o string
	var res any
	op := "ExtToQK"
	if sp {
		op = "SpToQK"
		o, res = guard(func() (any, error) {
			return transform.ConvertSpatialIDsToQuadkeysAndVerticalIDs(real, hz, w.V0+vz, hgt, hgt)
		})
	} else {
		o, res = guard(func() (any, error) {
			return transform.ConvertExtendedSpatialIDsToQuadkeysAndVerticalIDs(real, hz, w.V0+vz, hgt, hgt)
		})
	}
	e := w.ev(op, map[string]any{"ids": bidsArr(ids), "hz": hz, "vz": vz, "kept": intact(real, snap)})
	e.O, e.Real = o, map[string]any{"ids": snap, "hz": hz, "vz": w.V0 + vz}
	e.R = []any{}
	if o == "panic" {
		e.Bad = "panic"
	} else if res != nil {
		groups := []any{}
		for _, g := range res.([]*object.FromExtendedSpatialIDToQuadkeyAndVerticalID) {
			pairs := []any{}
			for _, p := range g.InnerIDList() {
				d, ok := quadDigits(p[0], g.QuadkeyZoom())
				if !ok {
					e.Bad = fmt.Sprintf("quadkey %d does not fit zoom %d", p[0], g.QuadkeyZoom())
					continue
				}
				m, ok := w.PV(g.VerticalZoom(), p[1])
				if !ok {
					e.Bad = "far vertical index"
					continue
				}
				pairs = append(pairs, []any{d, m.F})
			}
			groups = append(groups, map[string]any{
				"hz": g.QuadkeyZoom(), "vz": g.VerticalZoom() - w.V0,
				"echo": g.MaxHeight() == hgt && g.MinHeight() == hgt, "pairs": pairs})
		}
		e.R = groups
	}
	t.Emit(e, len(ids) > 0)
}

type QK struct {
	QZ     int64
	Digits []int64
	VZ, VI int64 // model vertical zoom / index
}

func qksArr(qs []QK) []any {
	out := make([]any, len(qs))
	for i, q := range qs {
		out[i] = []any{q.QZ, q.Digits, q.VZ, q.VI}
	}
	return out
}

func evQKToExt(t *Tracer, w Win, qs []QK, hz, vz int64, sp bool) {
	in := make([]*object.QuadkeyAndVerticalID, len(qs))
	desc := make([]string, len(qs))
	for i, q := range qs {
		key := digitsToKey(q.Digits)
		vi := w.F0<<uint(q.VZ) + q.VI
		in[i] = object.NewQuadkeyAndVerticalID(q.QZ, key, w.V0+q.VZ, vi, 0, 0)
		desc[i] = fmt.Sprintf("%d:%d:%d:%d", q.QZ, key, w.V0+q.VZ, vi)
	}
	var o string
	var res any
	op := "QKToExt"
	if sp {
		op = "QKToSp"
		o, res = guard(func() (any, error) { return transform.ConvertQuadkeysAndVerticalIDsToSpatialIDs(in, hz) })
	} else {
		o, res = guard(func() (any, error) {
			return transform.ConvertQuadkeysAndVerticalIDsToExtendedSpatialIDs(in, hz, w.V0+vz)
		})
	}
	e := w.ev(op, map[string]any{"keys": qksArr(qs), "hz": hz, "vz": vz})
	e.O, e.Real = o, map[string]any{"keys": desc, "hz": hz, "vz": w.V0 + vz}
	e.R = []any{}
	if o == "panic" {
		e.Bad = "panic"
	} else {
		e.R = w.projBIDList(strs(res), sp, &e.Bad)
	}
	t.Emit(e, len(qs) > 0)
}

// ---- C12 -------------------------------------------------------------------
func evZToKey(t *Tracer, f, zi, zo, E, O int64) {
	o, res := guard(func() (any, error) {
		a, b, err := transform.ConvertZToMinMaxAltitudekey(f, zi, zo, E, O)
		return []int64{a, b}, err
	})
	w := Win{Abs: true}
	e := w.ev("ZToKey", map[string]any{"f": f, "zi": zi, "zo": zo, "E": E, "O": O})
	e.O = o
	e.R = []int64{0, 0}
	if o == "ok" {
		e.R = res
	} else if o == "panic" {
		e.Bad = "panic"
	}
	t.Emit(e, true)
}

func evKeyToZ(t *Tracer, k, kz, zo, E, O int64) {
	o, res := guard(func() (any, error) {
		a, b, err := transform.ConvertAltitudekeyToMinMaxZ(k, kz, zo, E, O)
		return []int64{a, b}, err
	})
	w := Win{Abs: true}
	e := w.ev("KeyToZ", map[string]any{"k": k, "kz": kz, "zo": zo, "E": E, "O": O})
	e.O = o
	e.R = []int64{0, 0}
	if o == "ok" {
		e.R = res
	} else if o == "panic" {
		e.Bad = "panic"
	}
	t.Emit(e, true)
}

// zkRepresentable: every intermediate of the acceptance predicate stays below 2^29.
func zkRepresentable(f, zi, zo, E, O int64) bool {
	S := maxI(0, maxI(zi-25, zo-E))
	if 25-zi+S > 28 || E-zo+S > 28 || S > 28 || E-zo+S < 0 {
		return false
	}
	lim := float64(int64(1) << 28)
	return (math.Abs(float64(f))+1)*math.Ldexp(1, int(25-zi+S))+math.Abs(float64(O))*math.Ldexp(1, int(S)) < lim
}

func kzRepresentable(k, kz, zo, E, O int64) bool {
	S := maxI(0, maxI(kz-E, zo-25))
	if E-kz+S > 28 || 25-zo+S > 28 || S > 28 {
		return false
	}
	lim := float64(int64(1) << 28)
	return (math.Abs(float64(k))+1)*math.Ldexp(1, int(E-kz+S))+math.Abs(float64(O))*math.Ldexp(1, int(S)) < lim
}

func fdiv(a, b int64) int64 {
	q := a / b
	if a%b != 0 && (a < 0) != (b < 0) {
		q--
	}
	return q
}

// edgeOffset: offsets that put an end of the altitude range (+-2^25 m) next to small keys
func (r Rng) edgeOffset() int64 {
	top := int64(1) << 25
	return r.Pick(top, -top, 3*top, 0, top/2) + r.Pick(0, 0, 1, -1, r.In(-3000, 3000), r.In(-3000000, 3000000))
}

func (r Rng) offset() int64 {
	switch r.Intn(6) {
	case 0:
		return 0
	case 1:
		return int64(1) << uint(r.In(0, 24))
	case 2:
		return -(int64(1) << uint(r.In(0, 20)))
	case 3:
		return 2*r.In(0, 5000) + 1
	default:
		return r.In(-3000, 3000)
	}
}

func driveAltKey(t *Tracer, r Rng, n int) {
	for i := 0; i < n; {
		E := r.In(0, 35)
		O := r.offset()
		if r.Chance(0.25) {
			// cells next to / straddling an end of the other side's index range: the first and
			// last representable altitude (-2^25 m, 2^25 m) for key -> index, key 0 and key
			// 2^zoom for index -> key.  Metre-sized cells or larger, so every quantity is exact.
			top := int64(1) << 25
			O = r.edgeOffset()
			if r.Chance(0.5) {
				kz := r.In(maxI(0, E-26), E)
				zo := r.In(0, 25)
				c := int64(1) << uint(E-kz)
				k := fdiv(O+r.Pick(-top, top), c) + r.Pick(-1, 0, 0, 0, 1)
				if kzRepresentable(k, kz, zo, E, O) {
					evKeyToZ(t, k, kz, zo, E, O)
					i++
				}
			} else {
				zi := r.In(0, 25)
				zo := r.In(maxI(0, E-26), E)
				c := int64(1) << uint(25-zi)
				edge := r.Pick(0, int64(1)<<uint(minI(E, 40))) // altitude + offset of key 0 / key 2^zo
				f := fdiv(edge-O, c) + r.Pick(-1, 0, 0, 0, 1)
				if zkRepresentable(f, zi, zo, E, O) {
					evZToKey(t, f, zi, zo, E, O)
					i++
				}
			}
			continue
		}
		std := r.Chance(0.2) // the library's own constants: 1 m at zoom 25, key 0 at -2^24 m (or at the ground)
		if std {
			E, O = 25, r.Pick(1<<24, 1<<24, 0, 1<<25)
		}
		if r.Chance(0.5) {
			zi := r.In(0, 35)
			zo := r.In(maxI(0, E-12), minI(35, E+3))
			if std || r.Chance(0.3) { // any key zoom, also far coarser than the base exponent (cells of 2^25 m)
				zo = r.In(0, 35)
				if r.Chance(0.4) {
					zo = zi
				}
			}
			nz := int64(1) << uint(minI(zi, 28))
			f := r.edgeIn(-nz, nz-1)
			if r.Chance(0.5) {
				f = r.In(-40, 40)
			}
			if r.Chance(0.05) {
				f = r.Pick(-nz-1, nz) // not an index of its zoom
			}
			if !zkRepresentable(f, zi, zo, E, O) {
				continue
			}
			evZToKey(t, f, zi, zo, E, O)
		} else {
			kz := r.In(maxI(0, E-12), minI(35, E+3))
			zo := r.In(0, 28)
			if std || r.Chance(0.3) {
				kz = r.In(0, 35)
				if r.Chance(0.4) {
					zo = kz
				}
			}
			nk := int64(1) << uint(minI(kz, 28))
			k := r.edgeIn(0, nk-1)
			if r.Chance(0.5) {
				k = r.In(0, minI(nk-1, 60))
			}
			if r.Chance(0.05) {
				k = r.Pick(-1, nk)
			}
			if !kzRepresentable(k, kz, zo, E, O) {
				continue
			}
			evKeyToZ(t, k, kz, zo, E, O)
		}
		i++
	}
}

// ---- drivers for C11 ----------------------------------------------------------
func (r Rng) patternedIndex(z int64) int64 {
	n := int64(1) << uint(z)
	switch r.Intn(6) {
	case 0:
		return 0
	case 1:
		return n - 1
	case 2: // leading zero bits
		return r.In(0, (int64(1)<<uint(r.In(0, z)))-1)
	case 3: // alternating
		return 0x5555555555555555 & (n - 1)
	case 4:
		return 0x2AAAAAAAAAAAAAAA & (n - 1)
	default:
		return r.In(0, n-1)
	}
}

func (r Rng) vWindow(depth int64) Win {
	w := Win{}
	if r.Chance(0.4) {
		w.Abs = true
		return w
	}
	w.V0 = r.In(0, 35-depth)
	nv := int64(1) << uint(w.V0)
	w.F0 = r.Pick(-1, 0, -nv, nv-1, r.In(-nv, nv-1))
	return w
}

func (r Rng) randomBID(w Win, hLo, hHi, vDepth int64) BID {
	h := r.In(hLo, hHi)
	v := r.In(0, vDepth)
	b := BID{H: h, X: r.patternedIndex(h), Y: r.patternedIndex(h), V: v}
	nv := int64(1) << uint(v)
	if w.V0 == 0 && w.F0 == 0 {
		b.F = r.edgeIn(-nv, nv-1)
		if r.Chance(0.3) {
			b.F = r.Pick(-1, 0, -2)
		}
	} else {
		b.F = r.edgeIn(0, nv-1)
	}
	return b
}

func qkCost(hs, vs []int64, hz, vz int64) int64 {
	var c int64
	for i := range hs {
		var bits int64
		if hz > hs[i] {
			bits += 2 * (hz - hs[i])
		}
		if vz > vs[i] {
			bits += vz - vs[i]
		}
		if bits > 40 {
			bits = 40
		}
		c += int64(1) << uint(bits)
	}
	return c
}

func driveQuadkey(t *Tracer, r Rng, n int) {
	for i := 0; i < n; {
		vD := r.In(0, 20)
		w := r.vWindow(vD)
		sp := r.Chance(0.25)
		if sp {
			w = Win{Abs: true}
		}
		if r.Chance(0.5) { // IDs -> keys
			hz := r.In(1, 31)
			vz := r.In(0, vD)
			if sp {
				vz = r.In(0, 35)
			}
			k := 1 + r.Intn(4)
			ids := []BID{}
			for len(ids) < k {
				var b BID
				if len(ids) > 0 && r.Chance(0.2) {
					// a twin differing in single bits: one horizontal bit (x, y or both) and one low vertical
					// bit - the pairs on which a packed / xor-ed (quadkey, index) key collides
					p := ids[r.Intn(len(ids))]
					b = p
					if p.H > 0 {
						a := uint(r.In(0, p.H-1))
						switch r.Intn(3) {
						case 0:
							b.X ^= 1 << a
						case 1:
							b.Y ^= 1 << a
						default:
							b.X ^= 1 << a
							b.Y ^= 1 << a
						}
					}
					if p.V > 0 && r.Chance(0.8) {
						b.F ^= 1 << uint(r.In(0, minI(p.V-1, 7)))
					}
				} else if len(ids) > 0 && r.Chance(0.4) { // repeated / nested entries
					p := ids[r.Intn(len(ids))]
					b = p
					if r.Chance(0.5) && p.H > 1 && !sp {
						d := r.In(1, minI(3, p.H-1))
						b.H, b.X, b.Y = p.H-d, p.X>>uint(d), p.Y>>uint(d)
					}
				} else if sp {
					z := r.In(maxI(0, maxI(hz-3, vz-6)), 35)
					b = BID{H: z, X: r.patternedIndex(z), Y: r.patternedIndex(z), V: z}
					nv := int64(1) << uint(z)
					b.F = r.edgeIn(-nv, nv-1)
				} else {
					b = r.randomBID(w, maxI(0, hz-3), 35, vD)
				}
				ids = append(ids, b)
			}
			hs, vs := make([]int64, len(ids)), make([]int64, len(ids))
			for j, b := range ids {
				hs[j], vs[j] = b.H, b.V
			}
			if qkCost(hs, vs, hz, vz) > 2500 {
				continue
			}
			fits := true
			for _, b := range ids {
				if (abs64(b.F)+1)<<uint(maxI(0, vz-b.V)) >= 1<<29 {
					fits = false
				}
			}
			if !fits {
				continue
			}
			evExtToQK(t, w, ids, hz, vz, sp)
		} else { // keys -> IDs
			hz := r.In(0, 35)
			vz := r.In(0, vD)
			if sp {
				vz = hz
			}
			k := 1 + r.Intn(3)
			qs := []QK{}
			for len(qs) < k {
				qz := r.In(maxI(1, minI(31, hz-3)), 31)
				x, y := r.patternedIndex(qz), r.patternedIndex(qz)
				d := make([]int64, qz)
				for j := int64(0); j < qz; j++ {
					d[j] = 2*((y>>uint(qz-1-j))&1) + (x>>uint(qz-1-j))&1
				}
				q := QK{QZ: qz, Digits: d, VZ: r.In(maxI(0, vz-6), maxI(vD, vz-6))}
				if sp {
					q.VZ = r.In(maxI(0, vz-6), 35)
				}
				nv := int64(1) << uint(minI(q.VZ, 28))
				if w.V0 == 0 && w.F0 == 0 {
					q.VI = r.edgeIn(-nv, nv-1)
				} else {
					q.VI = r.edgeIn(0, nv-1)
				}
				if len(qs) > 0 && r.Chance(0.3) {
					q = qs[r.Intn(len(qs))]
				}
				qs = append(qs, q)
			}
			hs, vs := make([]int64, len(qs)), make([]int64, len(qs))
			for j, q := range qs {
				hs[j], vs[j] = q.QZ, q.VZ
			}
			if qkCost(hs, vs, hz, vz) > 2500 {
				continue
			}
			fits := true
			for _, q := range qs {
				if (abs64(q.VI)+1)<<uint(maxI(0, vz-q.VZ)) >= 1<<29 {
					fits = false
				}
			}
			if !fits {
				continue
			}
			evQKToExt(t, w, qs, hz, vz, sp)
		}
		i++
	}
}

func decBits(v any) int64 {
	var x int64
	for _, b := range decInts(v) {
		x = x<<1 | b
	}
	return x
}
func decBID(v any) BID {
	a := v.([]any)
	return BID{H: decInt(a[0]), X: decBits(a[1]), Y: decBits(a[2]), V: decInt(a[3]), F: decInt(a[4])}
}
func decBIDs(v any) []BID {
	arr, _ := v.([]any)
	out := make([]BID, len(arr))
	for i, x := range arr {
		out[i] = decBID(x)
	}
	return out
}
func decQKs(v any) []QK {
	arr, _ := v.([]any)
	out := make([]QK, len(arr))
	for i, x := range arr {
		a := x.([]any)
		out[i] = QK{QZ: decInt(a[0]), Digits: decInts(a[1]), VZ: decInt(a[2]), VI: decInt(a[3])}
	}
	return out
}

func init() {
	families["quadkey"] = driveQuadkey
	families["altkey"] = driveAltKey
	reg("ExtToQK", func(t *Tracer, w Win, a map[string]any) {
		evExtToQK(t, w, decBIDs(a["ids"]), decInt(a["hz"]), decInt(a["vz"]), false)
	})
	reg("SpToQK", func(t *Tracer, w Win, a map[string]any) {
		evExtToQK(t, w, decBIDs(a["ids"]), decInt(a["hz"]), decInt(a["vz"]), true)
	})
	reg("QKToExt", func(t *Tracer, w Win, a map[string]any) {
		evQKToExt(t, w, decQKs(a["keys"]), decInt(a["hz"]), decInt(a["vz"]), false)
	})
	reg("QKToSp", func(t *Tracer, w Win, a map[string]any) {
		evQKToExt(t, w, decQKs(a["keys"]), decInt(a["hz"]), decInt(a["vz"]), true)
	})
	// generated small-model tiles are lifted to real quadkey zooms by a random bit prefix
	lift := func(w Win, z, x, y int64, seedish int64) BID {
		// the replay window's H0 / X0 / Y0 serve as the prefix (H0 + z <= 31)
		h0 := minI(w.H0, 31-z)
		if w.Abs {
			h0 = 0
		}
		px, py := w.X0>>uint(maxI(0, w.H0-h0)), w.Y0>>uint(maxI(0, w.H0-h0))
		return BID{H: h0 + z, X: px<<uint(z) + x, Y: py<<uint(z) + y, V: 0, F: 0}
	}
	reg("G.Quad", func(t *Tracer, w Win, a map[string]any) {
		z, x, y := decInt(a["z"]), decInt(a["x"]), decInt(a["y"])
		b := lift(w, z, x, y, 0)
		if b.H < 1 {
			return
		}
		evExtToQK(t, absW, []BID{b}, b.H, 0, false)
		d, _ := quadDigits(0, 0)
		_ = d
		// and back: the key of the tile, converted at its own zoom
		xb, yb := bitsOf(b.X, b.H), bitsOf(b.Y, b.H)
		dg := make([]int64, b.H)
		for i := range dg {
			dg[i] = 2*yb[i] + xb[i]
		}
		evQKToExt(t, absW, []QK{{QZ: b.H, Digits: dg, VZ: 0, VI: 0}}, b.H, 0, false)
	})
	reg("G.HZoom", func(t *Tracer, w Win, a map[string]any) {
		z, x, y, zo := decInt(a["z"]), decInt(a["x"]), decInt(a["y"]), decInt(a["zo"])
		b := lift(w, z, x, y, 0)
		hz := b.H - z + zo
		if hz < 1 || hz > 31 {
			return
		}
		evExtToQK(t, absW, []BID{b}, hz, 0, false)
	})
	reg("ZToKey", func(t *Tracer, w Win, a map[string]any) {
		evZToKey(t, decInt(a["f"]), decInt(a["zi"]), decInt(a["zo"]), decInt(a["E"]), decInt(a["O"]))
	})
	reg("KeyToZ", func(t *Tracer, w Win, a map[string]any) {
		evKeyToZ(t, decInt(a["k"]), decInt(a["kz"]), decInt(a["zo"]), decInt(a["E"]), decInt(a["O"]))
	})
}
