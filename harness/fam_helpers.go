package main

// C20: the exported helper algebra.

import (
	"math"

	"github.com/trajectoryjp/spatial_id_go/v4/common"
	"github.com/trajectoryjp/spatial_id_go/v4/common/spatial"
)

func (r Rng) smallInts(n int, lo, hi int64) []int64 {
	out := make([]int64, n)
	for i := range out {
		out[i] = r.In(lo, hi)
	}
	return out
}

func v3(a []int64) spatial.Vector3 {
	return spatial.Vector3{X: float64(a[0]), Y: float64(a[1]), Z: float64(a[2])}
}
func p3(a []int64) spatial.Point3 {
	return spatial.Point3{X: float64(a[0]), Y: float64(a[1]), Z: float64(a[2])}
}

// ints converts exact-integer floats; ok=false otherwise.
func ints(fs ...float64) ([]int64, bool) {
	out := make([]int64, len(fs))
	for i, f := range fs {
		if f != math.Trunc(f) || math.Abs(f) > 1e9 {
			return nil, false
		}
		out[i] = int64(f)
	}
	return out, true
}
func vecInts(v spatial.Vector3) ([]int64, bool) { return ints(v.X, v.Y, v.Z) }

func mantExp(x int64) []int64 { // x = m * 2^k with m odd (0 -> 0,0)
	if x == 0 {
		return []int64{0, 0}
	}
	k := int64(0)
	for x%2 == 0 {
		x /= 2
		k++
	}
	return []int64{x, k}
}

// alias: 0 = independent arguments; 1 = y is the prefix x[:len(y)] of x's own array; 2 = x is the prefix y[:len(x)] of
// y's array; 3 = y is the suffix x[len(x)-len(y):] (a caller's windows into one list - the VALUES decide the result,
// not where they are stored).  The mode is applied only when the values fit it.
func evSetOps(t *Tracer, x, y []int64, target int64, alias int64) {
	xs, ys := append([]int64(nil), x...), append([]int64(nil), y...)
	const sent = int64(-987654321)
	x, y = spareOf(x, sent), spareOf(y, sent) // spare capacity behind both arguments, as for a caller's sub-slices
	eq := func(a, b []int64) bool {
		if len(a) != len(b) {
			return false
		}
		for i := range a {
			if a[i] != b[i] {
				return false
			}
		}
		return true
	}
	switch {
	case alias == 1 && len(y) > 0 && len(y) <= len(x) && eq(x[:len(y)], y):
		y = x[:len(y)]
	case alias == 2 && len(x) > 0 && len(x) <= len(y) && eq(y[:len(x)], x):
		x = y[:len(x)]
	case alias == 3 && len(y) > 0 && len(y) <= len(x) && eq(x[len(x)-len(y):], y):
		y = x[len(x)-len(y):]
	default:
		alias = 0
	}
	e := absW.ev("SetOps", map[string]any{"x": x, "y": y, "t": target, "alias": alias})
	o, _ := guard(func() (any, error) {
		e.R = map[string]any{
			"union": common.Union(x, y), "inter": common.Intersect(x, y), "diff": common.Difference(x, y),
			"uniq": common.Unique(x), "incl": common.Include(x, target)}
		return nil, nil
	})
	e.O = o
	kept := len(xs) == len(x) && len(ys) == len(y)
	for i := range x {
		kept = kept && x[i] == xs[i]
	}
	for i := range y {
		kept = kept && y[i] == ys[i]
	}
	e.A["kept"] = kept && (alias != 0 || tailIntact(x, sent) && tailIntact(y, sent))
	if o != "ok" {
		e.Bad = "outcome " + o
		e.R = map[string]any{"union": []int64{}, "inter": []int64{}, "diff": []int64{}, "uniq": []int64{}, "incl": false}
	}
	t.Emit(e, true)
}

func evMaxMin(t *Tracer, xs []int64) {
	e := absW.ev("MaxMin", map[string]any{"xs": xs})
	mx, e1 := common.Max(xs)
	mn, e2 := common.Min(xs)
	e.O = "ok"
	e.R = map[string]any{"max": mx, "min": mn, "errmax": e1 != nil, "errmin": e2 != nil}
	t.Emit(e, true)
}

func evShiftOp(t *Tracer, m, k, s int64) {
	index := m << uint(k)
	e := absW.ev("ArithShift", map[string]any{"m": m, "k": k, "s": s})
	o, res := guard(func() (any, error) { return common.CalculateArithmeticShift(index, s), nil })
	e.O = o
	e.Real = map[string]any{"index": index, "shift": s}
	e.R = []int64{0, 0}
	if o == "ok" {
		e.R = mantExp(res.(int64))
	} else {
		e.Bad = "panic"
	}
	t.Emit(e, true)
}

func evCombinations(t *Tracer, n, k int64) {
	visits := [][]int64{}
	o, _ := guard(func() (any, error) {
		common.Combinations(n, k, func(p []int64) { visits = append(visits, append([]int64{}, p...)) })
		return nil, nil
	})
	e := absW.ev("Combinations", map[string]any{"n": n, "k": k})
	e.O = o
	e.R = visits
	if o != "ok" {
		e.Bad = "panic"
		e.R = []any{}
	}
	t.Emit(e, true)
}

func evVector(t *Tracer, a, b []int64, s int64) {
	u, v := v3(a), v3(b)
	e := absW.ev("Vector", map[string]any{"u": a, "v": b, "s": s})
	e.O = "ok"
	add, ok1 := vecInts(u.Add(v))
	sub, ok2 := vecInts(u.Sub(v))
	sc, ok3 := vecInts(u.Scale(float64(s)))
	cr, ok4 := vecInts(u.Cross(v))
	dl, ok5 := ints(u.Dot(v), u.L1Norm())
	fromPts, ok6 := vecInts(spatial.NewVectorFromPoints(p3(a), p3(b)))
	tr, ok7 := ints(p3(a).Translate(v).X, p3(a).Translate(v).Y, p3(a).Translate(v).Z)
	if !(ok1 && ok2 && ok3 && ok4 && ok5 && ok6 && ok7) {
		e.Bad = "non-integer result for integer vectors"
		e.R = map[string]any{"add": []int64{}, "sub": []int64{}, "scale": []int64{}, "cross": []int64{}, "dot": 0, "l1": 0, "pq": []int64{}, "tr": []int64{}, "norm2dev": 0}
	} else {
		// Norm: |norm^2 - u.u| in units of 1e-9 relative
		n := u.Norm()
		dev := int64(0)
		if d := float64(dl[0]); true {
			uu := u.Dot(u)
			_ = d
			if uu > 0 {
				dev = int64(math.Ceil(math.Abs(n*n-uu) / uu / 1e-12))
			}
		}
		e.R = map[string]any{"add": add, "sub": sub, "scale": sc, "cross": cr, "dot": dl[0], "l1": dl[1], "pq": fromPts, "tr": tr, "norm2dev": dev}
	}
	t.Emit(e, true)
}

func m3(a []int64) spatial.Matrix3 {
	return spatial.NewMatrix3(float64(a[0]), float64(a[1]), float64(a[2]), float64(a[3]), float64(a[4]), float64(a[5]), float64(a[6]), float64(a[7]), float64(a[8]))
}
func matInts(m spatial.Matrix3) ([]int64, bool) {
	return ints(m[0][0], m[0][1], m[0][2], m[1][0], m[1][1], m[1][2], m[2][0], m[2][1], m[2][2])
}

func evMatrix(t *Tracer, a, b, c, v []int64) {
	A, B, C, V := m3(a), m3(b), m3(c), v3(v)
	e := absW.ev("Matrix", map[string]any{"A": a, "B": b, "C": c, "v": v})
	e.O = "ok"
	ab, ok1 := matInts(A.Mul(B))
	l, ok2 := matInts(A.Mul(B).Mul(C))
	rr, ok3 := matInts(A.Mul(B.Mul(C)))
	v1, ok4 := vecInts(A.Mul(B).MulVec(V))
	v2, ok5 := vecInts(A.MulVec(B.MulVec(V)))
	iv, ok6 := vecInts(spatial.NewUnitMatrix3().MulVec(V))
	if !(ok1 && ok2 && ok3 && ok4 && ok5 && ok6) {
		e.Bad = "non-integer result for integer matrices"
		e.R = map[string]any{"ab": []int64{}, "abc1": []int64{}, "abc2": []int64{}, "abv1": []int64{}, "abv2": []int64{}, "iv": []int64{}}
	} else {
		e.R = map[string]any{"ab": ab, "abc1": l, "abc2": rr, "abv1": v1, "abv2": v2, "iv": iv}
	}
	t.Emit(e, true)
}

func evLine3(t *Tracer, p, q []int64) {
	l := spatial.NewLineFromPoints(p3(p), p3(q))
	e := absW.ev("Line3", map[string]any{"p": p, "q": q})
	e.O = "ok"
	t0, ok1 := ints(l.ToPoint(0).X, l.ToPoint(0).Y, l.ToPoint(0).Z)
	t1, ok2 := ints(l.ToPoint(1).X, l.ToPoint(1).Y, l.ToPoint(1).Z)
	st, ok3 := ints(l.Start().X, l.Start().Y, l.Start().Z)
	en, ok4 := ints(l.End().X, l.End().Y, l.End().Z)
	// midpoint doubled (exact for integers)
	md, ok5 := ints(2*l.ToPoint(0.5).X, 2*l.ToPoint(0.5).Y, 2*l.ToPoint(0.5).Z)
	if !(ok1 && ok2 && ok3 && ok4 && ok5) {
		e.Bad = "non-integer"
		e.R = map[string]any{"t0": []int64{}, "t1": []int64{}, "start": []int64{}, "end": []int64{}, "mid2": []int64{}}
	} else {
		e.R = map[string]any{"t0": t0, "t1": t1, "start": st, "end": en, "mid2": md}
	}
	t.Emit(e, true)
}

// rotate v by unit quaternion q
func rotate(q spatial.Quat, v spatial.Vector3) spatial.Vector3 {
	u := spatial.Vector3{X: q.X, Y: q.Y, Z: q.Z}
	s := q.W
	a := u.Scale(2 * u.Dot(v))
	b := v.Scale(s*s - u.Dot(u))
	c := u.Cross(v).Scale(2 * s)
	return a.Add(b).Add(c)
}

func evQuat(t *Tracer, a, b []int64) {
	u, v := v3(a), v3(b)
	e := absW.ev("Quat", map[string]any{"u": a, "v": b})
	o, res := guard(func() (any, error) { return spatial.RotateBetweenVector(u, v), nil })
	e.O = o
	e.R = map[string]any{"normdev": 1 << 20, "dirdev": 1 << 20}
	if o == "ok" {
		q := res.(spatial.Quat)
		n2 := q.W*q.W + q.X*q.X + q.Y*q.Y + q.Z*q.Z
		rv := rotate(q, u.Unit())
		d := rv.Sub(v.Unit()).Norm()
		nd, dd := math.Abs(n2-1)/1e-12, d/1e-12
		if nd < 1<<20 && dd < 1<<20 && !math.IsNaN(nd) && !math.IsNaN(dd) {
			e.R = map[string]any{"normdev": int64(math.Ceil(nd)), "dirdev": int64(math.Ceil(dd))}
		}
	} else {
		e.Bad = "panic"
	}
	t.Emit(e, true)
}

func driveHelpers(t *Tracer, r Rng, n int) {
	for i := 0; i < n; i++ {
		switch r.Intn(9) {
		case 0:
			x, y := r.smallInts(r.Intn(7), -3, 6), r.smallInts(r.Intn(7), -3, 6)
			alias := int64(0)
			if len(x) > 0 && r.Chance(0.35) { // two windows into one list
				k := 1 + r.Intn(len(x))
				switch alias = r.In(1, 3); alias {
				case 1:
					y = append([]int64(nil), x[:k]...)
				case 2:
					x, y = append([]int64(nil), x[:k]...), x
				default:
					y = append([]int64(nil), x[len(x)-k:]...)
				}
			}
			evSetOps(t, x, y, r.In(-3, 6), alias)
		case 1:
			evMaxMin(t, r.smallInts(r.Intn(6), -1000, 1000))
		case 2:
			m := r.In(-(1 << 20), 1<<20)
			k := r.In(0, 40)
			if r.Chance(0.3) {
				m = r.Pick(-1, 1, -3, 0, 5)
			}
			s := r.In(-62, 62)
			// the shifted value must fit int64: |m| * 2^(k+s) < 2^62
			bits := int64(math.Ceil(math.Log2(float64(abs64(m) + 1))))
			if k+s+bits > 61 || k+bits > 61 {
				continue
			}
			evShiftOp(t, m, k, s)
		case 3:
			nn := r.In(0, 12)
			evCombinations(t, nn, r.In(0, nn))
		case 4:
			evVector(t, r.smallInts(3, -20, 20), r.smallInts(3, -20, 20), r.In(-9, 9))
		case 5:
			evMatrix(t, r.smallInts(9, -6, 6), r.smallInts(9, -6, 6), r.smallInts(9, -6, 6), r.smallInts(3, -9, 9))
		case 6:
			evLine3(t, r.smallInts(3, -1000, 1000), r.smallInts(3, -1000, 1000))
		default:
			a, b := r.smallInts(3, -9, 9), r.smallInts(3, -9, 9)
			if r.Chance(0.25) { // exactly opposite
				k := r.In(1, 4)
				b = []int64{-a[0] * k, -a[1] * k, -a[2] * k}
				if r.Chance(0.4) {
					a = []int64{0, 0, r.Pick(-3, 2)} // opposite along z: the second fallback axis
					b = []int64{0, 0, -a[2] * k}
				}
			}
			zero := func(v []int64) bool { return v[0] == 0 && v[1] == 0 && v[2] == 0 }
			if zero(a) || zero(b) {
				continue
			}
			if r.Chance(0.2) { // almost parallel: a turn of 1e-9 .. 1e-4 rad (successive headings along a smooth track)
				m := r.Pick(1000000, 10000000, 100000000)
				a = []int64{a[0] * m, a[1] * m, a[2] * m}
				b = append([]int64(nil), a...)
				b[r.Intn(3)] += r.Pick(1, 7, 50, 300, 2000, 5000, 20000, r.In(1, 30000))
				if r.Chance(0.4) {
					// almost opposite instead: pi minus 1e-9 .. 5e-7 rad (a return leg a hair off the exact reverse); the
					// library treats these as opposite, which is accurate to the deviation itself - inside the 1e-6 asked
					n2 := math.Sqrt(float64(a[0]*a[0] + a[1]*a[1] + a[2]*a[2]))
					k := int64(1)
					if lim := int64(5e-7 * n2); lim > 1 {
						k = r.In(1, lim)
					}
					b = []int64{-a[0], -a[1], -a[2]}
					b[r.Intn(3)] += k
				}
			}
			// stay away from the ill-conditioned almost-opposite zone unless opposite to within 5e-7 rad
			ua, ub := v3(a).Unit(), v3(b).Unit()
			if c := ua.Dot(ub); c < -0.98 && ua.Cross(ub).Norm() > 6e-7 {
				continue
			}
			evQuat(t, a, b)
		}
	}
}

func init() {
	families["helpers"] = driveHelpers
	reg("SetOps", func(t *Tracer, w Win, a map[string]any) {
		alias := int64(0)
		if a["alias"] != nil {
			alias = decInt(a["alias"])
		}
		evSetOps(t, decInts(a["x"]), decInts(a["y"]), decInt(a["t"]), alias)
	})
	reg("MaxMin", func(t *Tracer, w Win, a map[string]any) { evMaxMin(t, decInts(a["xs"])) })
	reg("ArithShift", func(t *Tracer, w Win, a map[string]any) { evShiftOp(t, decInt(a["m"]), decInt(a["k"]), decInt(a["s"])) })
	reg("Combinations", func(t *Tracer, w Win, a map[string]any) { evCombinations(t, decInt(a["n"]), decInt(a["k"])) })
	reg("Vector", func(t *Tracer, w Win, a map[string]any) {
		evVector(t, decInts(a["u"]), decInts(a["v"]), decInt(a["s"]))
	})
	reg("Matrix", func(t *Tracer, w Win, a map[string]any) {
		evMatrix(t, decInts(a["A"]), decInts(a["B"]), decInts(a["C"]), decInts(a["v"]))
	})
	reg("Line3", func(t *Tracer, w Win, a map[string]any) { evLine3(t, decInts(a["p"]), decInts(a["q"])) })
	reg("Quat", func(t *Tracer, w Win, a map[string]any) { evQuat(t, decInts(a["u"]), decInts(a["v"])) })
}
