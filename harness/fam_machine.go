package main

// Machine histories: the client state of SpatialMachine.tla (a working set of
// IDs) is carried through random sequences of real library calls; after every
// step the real working set is recorded and Trace.tla checks that it is the
// specification's action applied to the previous recorded state.

import (
	"fmt"
	"os"
	"sort"

	"github.com/trajectoryjp/spatial_id_go/v4/common/object"
	"github.com/trajectoryjp/spatial_id_go/v4/detector"
	"github.com/trajectoryjp/spatial_id_go/v4/integrate"
	"github.com/trajectoryjp/spatial_id_go/v4/operated"
	"github.com/trajectoryjp/spatial_id_go/v4/shape"
	"github.com/trajectoryjp/spatial_id_go/v4/transform"
)

func uniqSorted(ss []string) []string {
	m := map[string]struct{}{}
	for _, s := range ss {
		m[s] = struct{}{}
	}
	out := make([]string, 0, len(m))
	for s := range m {
		out = append(out, s)
	}
	sort.Strings(out)
	return out
}

type machine struct {
	t    *Tracer
	r    Rng
	w    Win
	hD   int64
	vD   int64
	ws   []string // real extended IDs (a set)
	dead bool
}

func (m *machine) emit(op string, a map[string]any, o string, q any) {
	e := m.w.ev(op, a)
	e.O = o
	e.R = []any{}
	if q != nil {
		e.R = q
	}
	ws := m.w.projExtList(m.ws, &e.Bad)
	b, _ := jsonMarshalExtra(map[string]any{"ws": ws})
	_ = b
	e.A["ws"] = ws // the working set AFTER the step (model coordinates)
	e.Real = map[string]any{"ws": append([]string(nil), m.ws...)}
	m.t.Emit(e, true)
}

func (m *machine) models() []ID {
	out := make([]ID, 0, len(m.ws))
	for _, s := range m.ws {
		id, _ := ParseExt(s)
		p, _ := m.w.P(id)
		out = append(out, p)
	}
	return out
}

func (m *machine) reset() {
	m.hD, m.vD = m.r.In(2, 7), m.r.In(2, 7)
	if m.r.Chance(0.3) {
		m.hD, m.vD = m.r.In(2, 5), m.r.In(8, 20)
	}
	m.w = m.r.randomWindow(m.hD, m.vD, false)
	ids := m.r.randomIDList(m.w, m.hD, m.vD, 3, false)
	m.ws = uniqSorted(m.w.embedExtList(ids))
	m.dead = false
	m.emit("M.Reset", map[string]any{}, "ok", nil)
}

func (m *machine) step() {
	if m.dead || len(m.ws) == 0 || len(m.ws) > 400 || !m.w.validIDs(m.models()...) {
		// (also when a shift carried a voxel out of the altitude range: later steps take valid IDs only)
		m.reset()
		return
	}
	r := m.r
	sel := r.Intn(13)
	if os.Getenv("VH_DEBUG") != "" {
		fmt.Fprintln(os.Stderr, "machine op", sel, m.ws)
	}
	switch sel {
	case 9: // every voxel expanded to single-zoom spatial IDs, written back in extended form
		if m.w.H0 != m.w.V0 {
			return // the expansion depends on the real zoom difference: windows with equal base zooms only
		}
		var cost int64
		for _, s := range m.models() {
			d := s.V - s.H
			if d < 0 {
				d = -d
			} else {
				d *= 2
			}
			if d > 12 {
				cost = 1 << 20
			}
			cost += 1 << uint(minI(d, 20))
		}
		if cost > 600 {
			m.reset()
			return
		}
		var out []string
		o, _ := guard(func() (any, error) {
			for _, s := range m.ws {
				obj, err := object.NewExtendedSpatialID(s)
				if err != nil {
					return nil, err
				}
				ext, err := shape.ConvertSpatialIdsToExtendedSpatialIds(transform.ConvertExtendedSpatialIDToSpatialIDs(obj))
				if err != nil {
					return nil, err
				}
				out = append(out, ext...)
			}
			return nil, nil
		})
		if o == "ok" {
			m.ws = uniqSorted(out)
		} else {
			m.dead = true
		}
		m.emit("M.Expand", map[string]any{}, o, nil)
	case 10: // every voxel replaced by its ancestor dh / dv levels up (as far as its zoom allows)
		dh, dv := r.In(0, 2), r.In(0, 2)
		var out []string
		o, _ := guard(func() (any, error) {
			for i, s := range m.ws {
				obj, err := object.NewExtendedSpatialID(s)
				if err != nil {
					return nil, err
				}
				mm := m.models()[i]
				out = append(out, obj.Higher(minI(dh, mm.H), minI(dv, mm.V)).ID())
			}
			return nil, nil
		})
		if o == "ok" {
			m.ws = uniqSorted(out)
		} else {
			m.dead = true
		}
		m.emit("M.Higher", map[string]any{"dh": dh, "dv": dv}, o, nil)
	case 11: // the 6 / 8 / 26 neighbours of one member join the set
		ms := m.models()
		i := r.Intn(len(ms))
		k := r.Pick(6, 8, 26)
		var nb []string
		o, _ := guard(func() (any, error) {
			switch k {
			case 6:
				nb = operated.Get6spatialIdsAdjacentToFaces(m.ws[i])
			case 8:
				nb = operated.Get8spatialIdsAroundHorizontal(m.ws[i])
			default:
				nb = operated.Get26spatialIdsAroundVoxel(m.ws[i])
			}
			return nil, nil
		})
		c := ms[i]
		if o == "ok" {
			m.ws = uniqSorted(append(append([]string(nil), m.ws...), nb...))
		} else {
			m.dead = true
		}
		m.emit("M.Around", map[string]any{"c": c.Arr(), "k": k}, o, nil)
	case 12: // spatial-ID notation round trip (sets with h = v only)
		for _, s := range m.models() {
			if s.H != s.V || m.w.H0 != m.w.V0 {
				return
			}
		}
		var back []string
		o, _ := guard(func() (any, error) {
			sp, err := shape.ConvertExtendedSpatialIdsToSpatialIds(m.ws)
			if err != nil {
				return nil, err
			}
			back, err = shape.ConvertSpatialIdsToExtendedSpatialIds(sp)
			return nil, err
		})
		if o == "ok" {
			m.ws = uniqSorted(back)
		} else {
			m.dead = true
		}
		m.emit("M.SpRoundTrip", map[string]any{}, o, nil)
	case 0, 1: // change zoom
		h, v := r.In(0, m.hD), r.In(0, m.vD)
		if zoomCost(m.models(), h, v) > 600 {
			h, v = r.In(0, minI(m.hD, 2)), r.In(0, minI(m.vD, 2))
			if zoomCost(m.models(), h, v) > 600 {
				m.reset()
				return
			}
		}
		in := append([]string(nil), m.ws...)
		o, res := guard(func() (any, error) { return integrate.ChangeExtendedSpatialIdsZoom(in, m.w.H0+h, m.w.V0+v) })
		if o != "ok" {
			m.dead = true
		} else {
			m.ws = uniqSorted(strs(res))
		}
		m.emit("M.ChangeZoom", map[string]any{"h": h, "v": v, "n": len(strs(res))}, o, nil)
	case 2: // merge
		h, v := r.In(0, m.hD), r.In(0, m.vD)
		// memory bound of the merge: all eligible inputs are refined to the finest input zooms
		var mh, mv int64
		for _, s := range m.models() {
			mh, mv = maxI(mh, s.H), maxI(mv, s.V)
		}
		if zoomCost(m.models(), mh, mv) > 3000 {
			m.reset()
			return
		}
		in := append([]string(nil), m.ws...)
		o, res := guard(func() (any, error) { return integrate.MergeExtendedSpatialIds(in, m.w.H0+h, m.w.V0+v) })
		if o != "ok" {
			m.dead = true
		} else {
			m.ws = uniqSorted(strs(res))
		}
		m.emit("M.Merge", map[string]any{"h": h, "v": v, "n": len(strs(res))}, o, nil)
	case 3: // shift every voxel
		dx, dy, dv := r.smallShift(), r.smallShift(), r.smallShift()
		out := make([]string, 0, len(m.ws))
		o, _ := guard(func() (any, error) {
			for _, s := range m.ws {
				out = append(out, operated.GetShiftingSpatialID(s, dx, dy, dv))
			}
			return nil, nil
		})
		if o == "ok" {
			m.ws = uniqSorted(out)
		} else {
			m.dead = true
		}
		m.emit("M.Shift", map[string]any{"dx": dx, "dy": dy, "dv": dv}, o, nil)
	case 4: // neighbours replace the set
		hl, vl := r.In(0, 1), r.In(0, 1)
		if len(m.ws) > 40 {
			hl, vl = r.In(0, 1), 0
		}
		in := append([]string(nil), m.ws...)
		o, res := guard(func() (any, error) { return operated.GetNspatialIdsAroundVoxcels(in, hl, vl) })
		if o == "ok" {
			if len(strs(res)) == 0 {
				// no offsets: the set of neighbours is empty; keep the machine alive with a reset next
				m.ws = []string{}
			} else {
				m.ws = uniqSorted(strs(res))
			}
		} else {
			m.dead = true
		}
		m.emit("M.NLayer", map[string]any{"hl": hl, "vl": vl, "n": len(strs(res))}, o, nil)
	case 5: // add the voxel of a point
		h, v := r.In(0, m.hD), r.In(0, m.vD)
		p := r.latticePoint(m.w, h, v)
		pts, _, ok := m.w.realPoints([]Pt{p})
		if !ok {
			return
		}
		o, res := guard(func() (any, error) { return shape.GetExtendedSpatialIdsOnPoints(pts, m.w.H0+h, m.w.V0+v) })
		if o == "ok" {
			m.ws = uniqSorted(append(append([]string(nil), m.ws...), strs(res)...))
		} else {
			m.dead = true
		}
		m.emit("M.Lookup", map[string]any{"p": p.Arr(), "h": h, "v": v}, o, nil)
	case 6: // overlap query against a probe (both implementations where applicable)
		probe := r.randomID(m.w, m.hD, m.vD)
		if r.Chance(0.5) {
			ms := m.models()
			probe = r.relative(ms[r.Intn(len(ms))], m.hD, m.vD)
		}
		rp := m.w.E(probe).String()
		o, res := guard(func() (any, error) { return detector.CheckExtendedSpatialIdsArrayOverlap(m.ws, []string{rp}) })
		b, _ := res.(bool)
		m.emit("M.Overlap", map[string]any{"b": probe.Arr()}, o, []bool{b})
	case 7: // notation round trip through object form
		out := make([]string, 0, len(m.ws))
		o, _ := guard(func() (any, error) {
			for _, s := range m.ws {
				obj, err := object.NewExtendedSpatialID(s)
				if err != nil {
					return nil, err
				}
				out = append(out, obj.ID())
			}
			return nil, nil
		})
		if o == "ok" {
			m.ws = uniqSorted(out)
		} else {
			m.dead = true
		}
		m.emit("M.Reparse", map[string]any{}, o, nil)
	default: // quadkey round trip at the set's own zooms (when it has a single zoom pair in range)
		ms := m.models()
		h0, v0 := ms[0].H, ms[0].V
		same := true
		for _, s := range ms {
			if s.H != h0 || s.V != v0 {
				same = false
			}
		}
		rh := m.w.H0 + h0
		if !same || rh < 1 || rh > 31 {
			return
		}
		var back []string
		o, _ := guard(func() (any, error) {
			gs, err := transform.ConvertExtendedSpatialIDsToQuadkeysAndVerticalIDs(m.ws, rh, m.w.V0+v0, 0, 0)
			if err != nil {
				return nil, err
			}
			keys := []*object.QuadkeyAndVerticalID{}
			for _, g := range gs {
				for _, p := range g.InnerIDList() {
					keys = append(keys, object.NewQuadkeyAndVerticalID(g.QuadkeyZoom(), p[0], g.VerticalZoom(), p[1], 0, 0))
				}
			}
			back, err = transform.ConvertQuadkeysAndVerticalIDsToExtendedSpatialIDs(keys, rh, m.w.V0+v0)
			return nil, err
		})
		if o == "ok" {
			m.ws = uniqSorted(back)
		} else {
			m.dead = true
		}
		m.emit("M.KeyRoundTrip", map[string]any{"n": len(back)}, o, nil)
	}
}

func jsonMarshalExtra(v any) ([]byte, error) { return nil, nil }

func driveMachine(t *Tracer, r Rng, n int) {
	noStride = true
	defer func() { noStride = false }()
	m := &machine{t: t, r: r}
	m.reset()
	for i := 0; i < n; i++ {
		if i%12 == 11 {
			m.reset()
			continue
		}
		m.step()
	}
}

func init() { families["machine"] = driveMachine }
