//go:build verif

package main

import "github.com/trajectoryjp/spatial_id_go/v4/common"

const hooksBuilt = true

func setOrderHook(f func(n int) []int) { common.VerifOrderHook = f }
