package main

// Hash twins: pairs of DIFFERENT valid ID strings that collide under a common 32-bit string hash
// (FNV-1, FNV-1a, CRC-32 IEEE / Castagnoli, Adler-32).  An implementation that remembers IDs by such a
// hash instead of by the string treats the twins as one voxel; lists containing both expose it.
// The pairs are searched once per process in a block of neighbouring voxels (birthday search).

import (
	"fmt"
	"hash/adler32"
	"hash/crc32"
	"hash/fnv"
	"sync"
)

type twin struct{ A, B ID }

var (
	twinOnce         sync.Once
	twinsSp, twinsEx []twin
)

// indexTwins: pairs of different voxels of one zoom pair whose INDICES collide under common ways of
// packing (x, y, f) into one word: the multiply-xor spatial hash with the customary primes, polynomial
// rolling hashes with small multipliers, each in 64 and in 32 bits.
var (
	idxOnce   sync.Once
	idxTwins  []twin
	idxTwinsZ = int64(23)
)

func indexTwins() []twin {
	idxOnce.Do(func() {
		fs := []func(x, y, f int64) uint64{
			func(x, y, f int64) uint64 { return uint64(x*73856093 ^ y*19349663 ^ f*83492791) },
			func(x, y, f int64) uint64 { return uint64(uint32(x*73856093 ^ y*19349663 ^ f*83492791)) },
			func(x, y, f int64) uint64 { return uint64((x*31+y)*31 + f) },
			func(x, y, f int64) uint64 { return uint64((x*37+y)*37 + f) },
			func(x, y, f int64) uint64 { return uint64((f*31+y)*31 + x) },
			func(x, y, f int64) uint64 { return uint64(uint32((x*1000003+y)*1000003 + f)) },
			func(x, y, f int64) uint64 { return uint64(uint32(x*2654435761) ^ uint32(y*2246822519) ^ uint32(f*3266489917)) },
		}
		x0, y0 := int64(7451100), int64(3303200)
		seen := make([]map[uint64]ID, len(fs))
		found := make([]int, len(fs))
		for i := range seen {
			seen[i] = map[uint64]ID{}
		}
		for dx := int64(0); dx < 110; dx++ {
			for dy := int64(0); dy < 110; dy++ {
				for f := int64(0); f < 44; f++ {
					id := ID{H: idxTwinsZ, X: x0 + dx, Y: y0 + dy, V: idxTwinsZ, F: f}
					for i, h := range fs {
						if found[i] >= 8 {
							continue
						}
						k := h(id.X, id.Y, id.F)
						if o, ok := seen[i][k]; ok {
							idxTwins = append(idxTwins, twin{o, id})
							found[i]++
						} else {
							seen[i][k] = id
						}
					}
				}
			}
		}
		if len(idxTwins) == 0 {
			panic("index twin search found nothing")
		}
	})
	return idxTwins
}

func children(s ID) []ID {
	var out []ID
	for x := int64(0); x < 2; x++ {
		for y := int64(0); y < 2; y++ {
			for f := int64(0); f < 2; f++ {
				out = append(out, ID{s.H + 1, 2*s.X + x, 2*s.Y + y, s.V + 1, 2*s.F + f})
			}
		}
	}
	return out
}

func hashTwins() (sp, ext []twin) {
	twinOnce.Do(func() {
		hs := []func(string) uint32{
			func(s string) uint32 { h := fnv.New32(); h.Write([]byte(s)); return h.Sum32() },
			func(s string) uint32 { h := fnv.New32a(); h.Write([]byte(s)); return h.Sum32() },
			func(s string) uint32 { return crc32.ChecksumIEEE([]byte(s)) },
			func(s string) uint32 { return crc32.Checksum([]byte(s), crc32.MakeTable(crc32.Castagnoli)) },
			func(s string) uint32 { return adler32.Checksum([]byte(s)) },
		}
		const z = 25
		x0, y0 := int64(29803000), int64(13212000)
		for form := 0; form < 2; form++ {
			seen := make([]map[uint32]ID, len(hs))
			for i := range seen {
				seen[i] = map[uint32]ID{}
			}
			found := make([]int, len(hs))
			for dx := int64(0); dx < 500; dx++ {
				for dy := int64(0); dy < 400; dy++ {
					for f := int64(0); f < 2; f++ {
						id := ID{H: z, X: x0 + dx, Y: y0 + dy, V: z, F: f}
						s := id.String()
						if form == 0 {
							s = id.Sp()
						}
						for i, h := range hs {
							if found[i] >= 6 {
								continue
							}
							k := h(s)
							if o, ok := seen[i][k]; ok {
								if form == 0 {
									twinsSp = append(twinsSp, twin{o, id})
								} else {
									twinsEx = append(twinsEx, twin{o, id})
								}
								found[i]++
							} else {
								seen[i][k] = id
							}
						}
					}
				}
			}
		}
		// a known 64-bit collision (FNV-1a-64 of the extended-ID strings; found by a 2^32 birthday search, which is
		// too long to repeat on every run): both hash to 6351238038953105631
		twinsEx = append(twinsEx, twin{ID{25, 21236982, 17278617, 25, 1953}, ID{25, 24546739, 4349485, 25, 6401}})
		if len(twinsSp) == 0 || len(twinsEx) == 0 {
			panic(fmt.Sprint("hash twin search found nothing: ", len(twinsSp), len(twinsEx)))
		}
	})
	return twinsSp, twinsEx
}
