package main

// Hash twins: pairs of DIFFERENT valid ID strings that collide under a common 32-bit string hash
// (FNV-1, FNV-1a, CRC-32 IEEE / Castagnoli, Adler-32).  An implementation that remembers IDs by such a
// hash instead of by the string treats the twins as one voxel; lists containing both expose it.
// The pairs are searched once per process in a block of neighbouring voxels (birthday search).

import (
	"fmt"
	"hash/adler32"
	"hash/crc32"
	"hash/fnv"
	"sync"
)

type twin struct{ A, B ID }

var (
	twinOnce         sync.Once
	twinsSp, twinsEx []twin
)

func hashTwins() (sp, ext []twin) {
	twinOnce.Do(func() {
		hs := []func(string) uint32{
			func(s string) uint32 { h := fnv.New32(); h.Write([]byte(s)); return h.Sum32() },
			func(s string) uint32 { h := fnv.New32a(); h.Write([]byte(s)); return h.Sum32() },
			func(s string) uint32 { return crc32.ChecksumIEEE([]byte(s)) },
			func(s string) uint32 { return crc32.Checksum([]byte(s), crc32.MakeTable(crc32.Castagnoli)) },
			func(s string) uint32 { return adler32.Checksum([]byte(s)) },
		}
		const z = 25
		x0, y0 := int64(29803000), int64(13212000)
		for form := 0; form < 2; form++ {
			seen := make([]map[uint32]ID, len(hs))
			for i := range seen {
				seen[i] = map[uint32]ID{}
			}
			found := make([]int, len(hs))
			for dx := int64(0); dx < 500; dx++ {
				for dy := int64(0); dy < 400; dy++ {
					for f := int64(0); f < 2; f++ {
						id := ID{H: z, X: x0 + dx, Y: y0 + dy, V: z, F: f}
						s := id.String()
						if form == 0 {
							s = id.Sp()
						}
						for i, h := range hs {
							if found[i] >= 6 {
								continue
							}
							k := h(s)
							if o, ok := seen[i][k]; ok {
								if form == 0 {
									twinsSp = append(twinsSp, twin{o, id})
								} else {
									twinsEx = append(twinsEx, twin{o, id})
								}
								found[i]++
							} else {
								seen[i][k] = id
							}
						}
					}
				}
			}
		}
		if len(twinsSp) == 0 || len(twinsEx) == 0 {
			panic(fmt.Sprint("hash twin search found nothing: ", len(twinsSp), len(twinsEx)))
		}
	})
	return twinsSp, twinsEx
}
