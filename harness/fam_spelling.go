package main

// Spelling: an ID field is a decimal integer however it is written ("007",
// "+7", "-0").  Every ID-taking entry point is called on the canonical
// spelling and on a respelled copy of the same IDs; both results are recorded
// (numbers re-printed canonically) and TLC requires them to be equal (X_Law,
// law "SpellingSame"): a field is never silently read as another number, and
// all layers agree on which spellings they accept.

import (
	"fmt"
	"strconv"
	"strings"

	"github.com/trajectoryjp/spatial_id_go/v4/common/enum"
	"github.com/trajectoryjp/spatial_id_go/v4/common/object"
	"github.com/trajectoryjp/spatial_id_go/v4/detector"
	"github.com/trajectoryjp/spatial_id_go/v4/integrate"
	"github.com/trajectoryjp/spatial_id_go/v4/operated"
	"github.com/trajectoryjp/spatial_id_go/v4/shape"
	"github.com/trajectoryjp/spatial_id_go/v4/transform"
)

func respellField(r Rng, f string) string {
	neg := strings.HasPrefix(f, "-")
	digits := strings.TrimPrefix(f, "-")
	switch r.Intn(5) {
	case 0:
		digits = "0" + digits // 010, 07, 00
	case 1:
		digits = "00" + digits + "" // 0085263: an 8 or 9 behind zeros
	case 2:
		if !neg {
			return "+" + digits
		}
	case 3:
		if digits == "0" && !neg {
			return "-0"
		}
		digits = "0" + digits
	}
	if neg {
		return "-" + digits
	}
	return digits
}

func respell(r Rng, id string) string {
	f := strings.Split(id, "/")
	must := r.Intn(len(f))
	for p := range f { // each field respelled at most once
		if p == must || r.Chance(0.4) {
			f[p] = respellField(r, f[p])
		}
	}
	return strings.Join(f, "/")
}

// canon re-prints every integer field of every '/'-separated string.
func canon(ss []string) []string {
	out := make([]string, len(ss))
	for i, s := range ss {
		f := strings.Split(s, "/")
		for j := range f {
			if n, err := strconv.ParseInt(f[j], 10, 64); err == nil {
				f[j] = strconv.FormatInt(n, 10)
			}
		}
		out[i] = strings.Join(f, "/")
	}
	return out
}

func pointStrings(ps []*object.Point) []string {
	out := make([]string, len(ps))
	for i, p := range ps {
		out[i] = hexTriple(p.Lon(), p.Lat(), p.Alt())
	}
	return out
}

type spellFn struct {
	name string
	sp   bool
	f    func(ids []string) ([]string, error)
}

func spellFns(r Rng, h, v int64, other []string) []spellFn {
	return []spellFn{
		{"object.NewExtendedSpatialID", false, func(ids []string) ([]string, error) {
			o, err := object.NewExtendedSpatialID(ids[0])
			if err != nil {
				return nil, err
			}
			return []string{o.ID(), fmt.Sprint(o.FieldParams())}, nil
		}},
		{"ChangeExtendedSpatialIdsZoom", false, func(ids []string) ([]string, error) {
			return integrate.ChangeExtendedSpatialIdsZoom(ids, h, v)
		}},
		{"MergeExtendedSpatialIds", false, func(ids []string) ([]string, error) {
			return integrate.MergeExtendedSpatialIds(ids, h, v)
		}},
		{"GetNspatialIdsAroundVoxcels", false, func(ids []string) ([]string, error) {
			return operated.GetNspatialIdsAroundVoxcels(ids, 1, 1)
		}},
		{"GetShiftingSpatialID", false, func(ids []string) ([]string, error) {
			return []string{operated.GetShiftingSpatialID(ids[0], 1, -1, 1)}, nil
		}},
		{"Get6spatialIdsAdjacentToFaces", false, func(ids []string) ([]string, error) {
			return operated.Get6spatialIdsAdjacentToFaces(ids[0]), nil
		}},
		{"ConvertExtendedSpatialIdsToSpatialIds", false, func(ids []string) ([]string, error) {
			return shape.ConvertExtendedSpatialIdsToSpatialIds(ids)
		}},
		{"GetPointOnExtendedSpatialId", false, func(ids []string) ([]string, error) {
			ps, err := shape.GetPointOnExtendedSpatialId(ids[0], enum.Vertex)
			return pointStrings(ps), err
		}},
		{"CheckExtendedSpatialIdsArrayOverlap", false, func(ids []string) ([]string, error) {
			b, err := detector.CheckExtendedSpatialIdsArrayOverlap(ids, other)
			return []string{fmt.Sprint(b)}, err
		}},
		{"ConvertExtendedSpatialIDsToQuadkeysAndVerticalIDs", false, func(ids []string) ([]string, error) {
			g, err := transform.ConvertExtendedSpatialIDsToQuadkeysAndVerticalIDs(ids, maxI(1, minI(h, 31)), v, 0, 0)
			return pairStrings(g), err
		}},
		{"FitClearanceAroundExtendedSpatialID", false, func(ids []string) ([]string, error) {
			a, b, err := transform.FitClearanceAroundExtendedSpatialID(ids[0], 0)
			return []string{fmt.Sprint(a, b)}, err
		}},
		{"ChangeSpatialIdsZoom", true, func(ids []string) ([]string, error) {
			return integrate.ChangeSpatialIdsZoom(ids, h)
		}},
		{"MergeSpatialIds", true, func(ids []string) ([]string, error) {
			return integrate.MergeSpatialIds(ids, h)
		}},
		{"ConvertSpatialIdsToExtendedSpatialIds", true, func(ids []string) ([]string, error) {
			return shape.ConvertSpatialIdsToExtendedSpatialIds(ids)
		}},
		{"GetPointOnSpatialId", true, func(ids []string) ([]string, error) {
			ps, err := shape.GetPointOnSpatialId(ids[0], enum.Center)
			return pointStrings(ps), err
		}},
		{"CheckSpatialIdsArrayOverlap", true, func(ids []string) ([]string, error) {
			b, err := detector.CheckSpatialIdsArrayOverlap(ids, ids)
			return []string{fmt.Sprint(b)}, err
		}},
		{"ConvertSpatialIDsToQuadkeysAndVerticalIDs", true, func(ids []string) ([]string, error) {
			g, err := transform.ConvertSpatialIDsToQuadkeysAndVerticalIDs(ids, maxI(1, minI(h, 31)), h, 0, 0)
			return pairStrings(g), err
		}},
	}
}

func driveSpelling(t *Tracer, r Rng, n int) {
	for i := 0; i < n; i++ {
		z := r.In(2, 12)
		h, v := maxI(0, z+r.In(-1, 1)), maxI(0, z+r.In(-1, 1))
		w := Win{Abs: true}
		other := w.embedExtList(r.randomIDList(w, z, z, 2, false))
		fns := spellFns(r, h, v, other)
		fn := fns[r.Intn(len(fns))]
		var ids []string
		for k := 1 + r.Intn(3); k > 0; k-- {
			nz := int64(1) << uint(z)
			// indices with an 8 or 9 and indices below 8 both occur; zoom fields 8 / 9 too
			id := ID{z, r.In(0, nz-1), r.In(0, nz-1), z, r.In(-nz/2, nz/2-1)}
			if r.Chance(0.3) {
				id.X, id.Y, id.F = r.Pick(0, 1, 7), r.Pick(0, 2, 3), r.Pick(0, -1, -2, 1)
			}
			if fn.sp {
				ids = append(ids, id.Sp())
			} else {
				ids = append(ids, id.String())
			}
		}
		alt := make([]string, len(ids))
		for k := range ids {
			alt[k] = respell(r, ids[k])
		}
		run := func(in []string) []string {
			var out []string
			o, res := guard(func() (any, error) { return fn.f(append([]string(nil), in...)) })
			out = append(out, "outcome:"+o)
			if o == "ok" {
				out = append(out, sortedCopy(canon(strs(res)))...)
			}
			return out
		}
		canonical, respelled := run(ids), run(alt)
		if canonical[0] == "outcome:ok" && respelled[0] == "outcome:err" {
			continue // a layer that refuses "007" or "+7" outright says nothing wrong about any voxel: not judged
		}
		emitLaw(t, "SpellingSame", map[string]any{"fn": fn.name, "ids": strings.Join(ids, " "), "respelled": strings.Join(alt, " ")},
			canonical, respelled, "")
	}
}

func init() { families["spelling"] = driveSpelling }
