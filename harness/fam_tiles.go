package main

// C13 (tile keys), the altitude-key group conversion (C11/C12) and C17
// (binary-subdivision altitude IDs).  Vertical coordinates are absolute here
// (altitudes are tied to the 2^25 m scale); horizontal ones are bit sequences.

import (
	"fmt"
	"math"

	"github.com/trajectoryjp/spatial_id_go/v4/common/object"
	"github.com/trajectoryjp/spatial_id_go/v4/transform"
)

var absW = Win{Abs: true}

func perKeyResult(f func() (int64, int64, error)) []any {
	var a, b int64
	var err error
	o, _ := guard(func() (any, error) { a, b, err = f(); return nil, err })
	if o == "panic" {
		return []any{"panic", 0, 0}
	}
	if err != nil {
		return []any{"err", 0, 0}
	}
	return []any{"ok", a, b}
}

// ---- IDs -> (quadkey, altitude key) groups ---------------------------------------
func evExtToQKAlt(t *Tracer, ids []BID, hz, az, E, O int64) {
	real := make([]string, len(ids))
	per := make([]any, len(ids))
	for i, b := range ids {
		real[i] = absW.realBID(b).String()
		b := b
		per[i] = perKeyResult(func() (int64, int64, error) {
			return transform.ConvertZToMinMaxAltitudekey(b.F, b.V, az, E, O)
		})
	}
	real = spare(real)
	snap := append([]string(nil), real...)
	o, res := guard(func() (any, error) {
		return transform.ConvertExtendedSpatialIDsToQuadkeysAndAltitudekeys(real, hz, az, E, O)
	})
	e := absW.ev("ExtToQKAlt", map[string]any{"ids": bidsArr(ids), "hz": hz, "az": az, "E": E, "O": O,
		"per": per, "kept": intact(real, snap)})
	e.O, e.Real = o, map[string]any{"ids": snap}
	e.R = []any{}
	if o == "panic" {
		e.Bad = "panic"
	} else if res != nil {
		groups := []any{}
		for _, g := range res.([]*object.FromExtendedSpatialIDToQuadkeyAndAltitudekey) {
			pairs := []any{}
			for _, p := range g.InnerIDList() {
				d, ok := quadDigits(p[0], g.QuadkeyZoom())
				if !ok {
					e.Bad = fmt.Sprintf("quadkey %d does not fit zoom %d", p[0], g.QuadkeyZoom())
					continue
				}
				pairs = append(pairs, []any{d, p[1]})
			}
			groups = append(groups, map[string]any{"hz": g.QuadkeyZoom(), "az": g.AltitudekeyZoom(),
				"E": g.ZBaseExponent(), "O": g.ZBaseOffset(), "pairs": pairs})
		}
		e.R = groups
	}
	t.Emit(e, len(ids) > 0)
}

// ---- tiles -> IDs -------------------------------------------------------------
type Tile struct{ H, X, Y, V, Z int64 }

func tilesArr(ts []Tile) []any {
	out := make([]any, len(ts))
	for i, x := range ts {
		out[i] = []any{x.H, bitsOf(x.X, x.H), bitsOf(x.Y, x.H), x.V, x.Z}
	}
	return out
}

func evTiles(t *Tracer, ts []Tile, E, O, ovz int64, sp bool) {
	in := make([]*object.TileXYZ, 0, len(ts))
	per := make([]any, len(ts))
	desc := make([]string, len(ts))
	for i, x := range ts {
		tile, err := object.NewTileXYZ(x.H, x.X, x.Y, x.V, x.Z)
		if err != nil {
			return
		}
		in = append(in, tile)
		x := x
		per[i] = perKeyResult(func() (int64, int64, error) {
			return transform.ConvertAltitudekeyToMinMaxZ(x.Z, x.V, ovz, E, O)
		})
		desc[i] = fmt.Sprintf("%d/%d/%d/%d/%d", x.H, x.X, x.Y, x.V, x.Z)
	}
	e := absW.ev("TilesToExt", map[string]any{"tiles": tilesArr(ts), "E": E, "O": O, "ovz": ovz, "per": per})
	e.Real = map[string]any{"tiles": desc}
	e.R = []any{}
	if sp {
		e.Op = "TilesToSp"
		o, res := guard(func() (any, error) { return transform.ConvertTileXYZsToSpatialIDs(in, E, O, ovz) })
		e.O = o
		if o == "panic" {
			e.Bad = "panic"
		} else {
			e.R = absW.projBIDList(strs(res), true, &e.Bad)
		}
	} else {
		o, res := guard(func() (any, error) { return transform.ConvertTileXYZsToExtendedSpatialIDs(in, E, O, ovz) })
		e.O = o
		if o == "panic" {
			e.Bad = "panic"
		} else if res != nil {
			ss := []string{}
			for _, id := range res.([]object.ExtendedSpatialID) {
				ss = append(ss, id.ID())
			}
			e.R = absW.projBIDList(ss, false, &e.Bad)
		}
	}
	t.Emit(e, len(ts) > 0)
}

// ---- C17 ---------------------------------------------------------------------
// heights are integers in units of 2^-S m (S may be negative)
func unitsToM(x, S int64) float64 { return math.Ldexp(float64(x), int(-S)) }

func evBitFwd(t *Tracer, id BID, hz, vz, S, mn, mx int64, sp bool) {
	rid := absW.realBID(id)
	// voxel altitude bounds in units: f * 2^(25 - v) m = f * 2^(25 - v + S) units
	sh := 25 - id.V + S
	if sh < 0 || sh > 28 {
		return
	}
	lo, hi := id.F<<uint(sh), (id.F+1)<<uint(sh)
	maxH, minH := unitsToM(mx, S), unitsToM(mn, S)
	var o string
	var res any
	if sp {
		o, res = guard(func() (any, error) {
			return transform.ConvertSpatialIDsToQuadkeysAndVerticalIDs([]string{rid.Sp()}, hz, vz, maxH, minH)
		})
	} else {
		o, res = guard(func() (any, error) {
			return transform.ConvertExtendedSpatialIDsToQuadkeysAndVerticalIDs([]string{rid.String()}, hz, vz, maxH, minH)
		})
	}
	e := absW.ev("BitFwd", map[string]any{"id": id.Arr(), "hz": hz, "vz": vz, "S": S, "lo": lo, "hi": hi, "mn": mn, "mx": mx, "sp": sp})
	e.O, e.Real = o, map[string]any{"id": rid.String(), "maxHeight": fmt.Sprint(maxH), "minHeight": fmt.Sprint(minH)}
	e.R = []any{}
	if o == "panic" {
		e.Bad = "panic"
	} else if res != nil {
		groups := []any{}
		if tooManyPairs(res, &e.Bad) {
			res = []*object.FromExtendedSpatialIDToQuadkeyAndVerticalID{}
		}
		for _, g := range res.([]*object.FromExtendedSpatialIDToQuadkeyAndVerticalID) {
			pairs := []any{}
			for _, p := range g.InnerIDList() {
				d, ok := quadDigits(p[0], g.QuadkeyZoom())
				if !ok {
					e.Bad = "quadkey does not fit zoom"
					continue
				}
				pairs = append(pairs, []any{d, p[1]})
			}
			groups = append(groups, map[string]any{"hz": g.QuadkeyZoom(), "vz": g.VerticalZoom(),
				"echo": g.MaxHeight() == maxH && g.MinHeight() == minH, "pairs": pairs})
		}
		e.R = groups
	}
	t.Emit(e, true)
}

// evBitFwdList: several voxels (nested / overlapping / repeated) converted together.
func evBitFwdList(t *Tracer, ids []BID, hz, vz, S, mn, mx int64) {
	real := make([]string, len(ids))
	los, his := make([]int64, len(ids)), make([]int64, len(ids))
	for i, id := range ids {
		sh := 25 - id.V + S
		if sh < 0 || sh > 28 {
			return
		}
		los[i], his[i] = id.F<<uint(sh), (id.F+1)<<uint(sh)
		real[i] = absW.realBID(id).String()
	}
	maxH, minH := unitsToM(mx, S), unitsToM(mn, S)
	o, res := guard(func() (any, error) {
		return transform.ConvertExtendedSpatialIDsToQuadkeysAndVerticalIDs(real, hz, vz, maxH, minH)
	})
	e := absW.ev("BitFwdList", map[string]any{"ids": bidsArr(ids), "hz": hz, "vz": vz, "S": S, "los": los, "his": his, "mn": mn, "mx": mx})
	e.O, e.Real = o, map[string]any{"ids": real, "maxHeight": fmt.Sprint(maxH), "minHeight": fmt.Sprint(minH)}
	e.R = []any{}
	if o == "panic" {
		e.Bad = "panic"
	} else if res != nil {
		groups := []any{}
		if tooManyPairs(res, &e.Bad) {
			res = []*object.FromExtendedSpatialIDToQuadkeyAndVerticalID{}
		}
		for _, g := range res.([]*object.FromExtendedSpatialIDToQuadkeyAndVerticalID) {
			pairs := []any{}
			for _, p := range g.InnerIDList() {
				d, ok := quadDigits(p[0], g.QuadkeyZoom())
				if !ok {
					e.Bad = "quadkey does not fit zoom"
					continue
				}
				pairs = append(pairs, []any{d, p[1]})
			}
			groups = append(groups, map[string]any{"hz": g.QuadkeyZoom(), "vz": g.VerticalZoom(),
				"echo": g.MaxHeight() == maxH && g.MinHeight() == minH, "pairs": pairs})
		}
		e.R = groups
	}
	t.Emit(e, true)
}

// tooManyPairs: no driver asks for more than a few thousand (quadkey, cell) pairs; a result of hundreds of thousands is
// recorded as such instead of being shipped to TLC pair by pair
func tooManyPairs(res any, bad *string) bool {
	total := 0
	for _, g := range res.([]*object.FromExtendedSpatialIDToQuadkeyAndVerticalID) {
		total += len(g.InnerIDList())
	}
	if total > 20000 {
		*bad = fmt.Sprintf("%d (quadkey, vertical ID) pairs returned - far beyond anything this call can correctly return", total)
		return true
	}
	return false
}

// evBitFwdFree: a height range with arbitrary (decimal, feet) bounds; see TraceOps.X_BitFwdFree.
func evBitFwdFree(t *Tracer, id BID, hz, vz int64, minH, maxH float64) {
	rid := absW.realBID(id)
	res25 := math.Ldexp(1, int(25-id.V))
	bottom, top := float64(id.F)*res25, float64(id.F+1)*res25
	cell := (maxH - minH) / math.Ldexp(1, int(vz))
	nCells := math.Ldexp(1, int(vz))
	clampF := func(v float64) float64 { return math.Max(0, math.Min(nCells-1, v)) }
	span := (top - bottom) / cell
	if span > 64 || cell <= 0 {
		return
	}
	lenLo, lenHi := int64(math.Floor(span)), int64(math.Floor(span))+2
	if bottom < minH || top > maxH {
		lenLo = 1 // (partly) outside the range: clamped
	}
	if lenLo < 1 {
		lenLo = 1
	}
	mid := (0.5*(bottom+top) - minH) / cell
	midLo, midHi := int64(clampF(math.Floor(mid)-1)), int64(clampF(math.Floor(mid)+1))
	if midHi >= 1<<29 {
		return
	}
	e := absW.ev("BitFwdFree", map[string]any{"id": id.Arr(), "hz": hz, "vz": vz, "lenLo": lenLo, "lenHi": lenHi, "midLo": midLo, "midHi": midHi,
		"minH": fmt.Sprintf("%x", math.Float64bits(minH)), "maxH": fmt.Sprintf("%x", math.Float64bits(maxH))})
	e.Real = map[string]any{"id": rid.String(), "maxHeight": fmt.Sprint(maxH), "minHeight": fmt.Sprint(minH)}
	inFlight = &e
	o, res := guard(func() (any, error) {
		return transform.ConvertExtendedSpatialIDsToQuadkeysAndVerticalIDs([]string{rid.String()}, hz, vz, maxH, minH)
	})
	inFlight = nil
	e.O = o
	e.R = []any{}
	if o == "panic" {
		e.Bad = "panic"
	} else if res != nil {
		groups := []any{}
		if tooManyPairs(res, &e.Bad) {
			res = []*object.FromExtendedSpatialIDToQuadkeyAndVerticalID{}
		}
		for _, g := range res.([]*object.FromExtendedSpatialIDToQuadkeyAndVerticalID) {
			pairs := []any{}
			for _, p := range g.InnerIDList() {
				d, ok := quadDigits(p[0], g.QuadkeyZoom())
				if !ok || p[1] >= 1<<29 || p[1] <= -(1<<29) {
					e.Bad = "quadkey does not fit zoom / cell index out of any range"
					continue
				}
				pairs = append(pairs, []any{d, p[1]})
			}
			groups = append(groups, map[string]any{"hz": g.QuadkeyZoom(), "vz": g.VerticalZoom(),
				"echo": g.MaxHeight() == maxH && g.MinHeight() == minH, "pairs": pairs})
		}
		e.R = groups
	}
	t.Emit(e, true)
}

func driveBitsFree(t *Tracer, r Rng, n int) {
	for i := 0; i < n; i++ {
		// ranges in decimal metres and in feet, as they are configured in practice
		var minH, span float64
		switch r.Intn(4) {
		case 0:
			minH, span = 0, float64(r.Pick(1000, 2000, 5000, 8000, 10000, 400, 150))*0.3048
		case 1:
			minH, span = -float64(r.In(0, 5000))/10, float64(r.In(1, 100000))/10
		case 2:
			minH, span = float64(r.In(-400, 400)), float64(r.Pick(100, 300, 500, 1000, 3000, 3400, 8848))
		default:
			minH, span = float64(r.In(-3000, 3000))/100, float64(r.In(100, 1000000))/100
		}
		maxH := minH + span
		vz := r.In(0, 22)
		cell := span / math.Ldexp(1, int(vz))
		// a voxel of about 0.05 .. 20 cells, inside / straddling / outside the range
		V := int64(25 - math.Round(math.Log2(cell*math.Pow(2, 4*r.Float64()-2))))
		if V < 0 || V > 35 {
			continue
		}
		res := math.Ldexp(1, int(25-V))
		alt := minH + span*(r.Float64()*1.2-0.1)
		id := BID{V: V, F: int64(math.Floor(alt / res)), H: r.In(1, 25)}
		if abs64(id.F) >= int64(1)<<uint(minI(V, 28)) {
			continue
		}
		id.X, id.Y = r.patternedIndex(id.H), r.patternedIndex(id.H)
		hz := r.In(maxI(1, id.H-3), minI(31, id.H+1))
		evBitFwdFree(t, id, hz, vz, minH, maxH)
	}
}

// evBitHi: subdivision zooms 13..35 with the range [mn, mn + cell * 2^vz) given by its cell height
// (all in units of 2^-S m); the voxel / the cell index stay near the bottom of the range so that
// every number the model sees is small.
func evBitFwdHi(t *Tracer, id BID, hz, vz, S, mn, cell int64) {
	rid := absW.realBID(id)
	sh := 25 - id.V + S
	if sh < 0 || sh > 28 {
		return
	}
	lo, hi := id.F<<uint(sh), (id.F+1)<<uint(sh)
	minH := unitsToM(mn, S)
	maxH := minH + math.Ldexp(unitsToM(cell, S), int(vz))
	o, res := guard(func() (any, error) {
		return transform.ConvertExtendedSpatialIDsToQuadkeysAndVerticalIDs([]string{rid.String()}, hz, vz, maxH, minH)
	})
	e := absW.ev("BitFwdHi", map[string]any{"id": id.Arr(), "hz": hz, "vz": vz, "S": S, "lo": lo, "hi": hi, "mn": mn, "cell": cell})
	e.O, e.Real = o, map[string]any{"id": rid.String(), "maxHeight": fmt.Sprint(maxH), "minHeight": fmt.Sprint(minH)}
	e.R = []any{}
	if o == "panic" {
		e.Bad = "panic"
	} else if res != nil {
		groups := []any{}
		if tooManyPairs(res, &e.Bad) {
			res = []*object.FromExtendedSpatialIDToQuadkeyAndVerticalID{}
		}
		for _, g := range res.([]*object.FromExtendedSpatialIDToQuadkeyAndVerticalID) {
			pairs := []any{}
			for _, p := range g.InnerIDList() {
				d, ok := quadDigits(p[0], g.QuadkeyZoom())
				if !ok {
					e.Bad = "quadkey does not fit zoom"
					continue
				}
				pairs = append(pairs, []any{d, p[1]})
			}
			groups = append(groups, map[string]any{"hz": g.QuadkeyZoom(), "vz": g.VerticalZoom(),
				"echo": g.MaxHeight() == maxH && g.MinHeight() == minH, "pairs": pairs})
		}
		e.R = groups
	}
	t.Emit(e, true)
}

func evBitBackHi(t *Tracer, q QK, hz, ovz, S, mn, cell int64) {
	minH := unitsToM(mn, S)
	maxH := minH + math.Ldexp(unitsToM(cell, S), int(q.VZ))
	in := []*object.QuadkeyAndVerticalID{object.NewQuadkeyAndVerticalID(q.QZ, digitsToKey(q.Digits), q.VZ, q.VI, maxH, minH)}
	o, res := guard(func() (any, error) {
		return transform.ConvertQuadkeysAndVerticalIDsToExtendedSpatialIDs(in, hz, ovz)
	})
	e := absW.ev("BitBackHi", map[string]any{"key": []any{q.QZ, q.Digits, q.VZ, q.VI}, "hz": hz, "ovz": ovz, "S": S, "mn": mn, "cell": cell})
	e.O, e.Real = o, map[string]any{"maxHeight": fmt.Sprint(maxH), "minHeight": fmt.Sprint(minH)}
	e.R = []any{}
	if o == "panic" {
		e.Bad = "panic"
	} else {
		e.R = absW.projBIDList(strs(res), false, &e.Bad)
	}
	t.Emit(e, true)
}

func (r Rng) quadOf(qz int64) []int64 {
	x, y := r.patternedIndex(qz), r.patternedIndex(qz)
	d := make([]int64, qz)
	for j := int64(0); j < qz; j++ {
		d[j] = 2*((y>>uint(qz-1-j))&1) + (x>>uint(qz-1-j))&1
	}
	return d
}

func evBitBack(t *Tracer, q QK, hz, ovz, S, mn, mx int64) {
	maxH, minH := unitsToM(mx, S), unitsToM(mn, S)
	in := []*object.QuadkeyAndVerticalID{object.NewQuadkeyAndVerticalID(q.QZ, digitsToKey(q.Digits), q.VZ, q.VI, maxH, minH)}
	o, res := guard(func() (any, error) {
		return transform.ConvertQuadkeysAndVerticalIDsToExtendedSpatialIDs(in, hz, ovz)
	})
	e := absW.ev("BitBack", map[string]any{"key": []any{q.QZ, q.Digits, q.VZ, q.VI}, "hz": hz, "ovz": ovz, "S": S, "mn": mn, "mx": mx})
	e.O, e.Real = o, map[string]any{"maxHeight": fmt.Sprint(maxH), "minHeight": fmt.Sprint(minH)}
	e.R = []any{}
	if o == "panic" {
		e.Bad = "panic"
	} else {
		e.R = absW.projBIDList(strs(res), false, &e.Bad)
	}
	t.Emit(e, true)
}

// evBitBackList: several height-range keys converted back together.
func evBitBackList(t *Tracer, qs []QK, hz, ovz, S, mn, mx int64) {
	maxH, minH := unitsToM(mx, S), unitsToM(mn, S)
	in := make([]*object.QuadkeyAndVerticalID, len(qs))
	keys := make([]any, len(qs))
	for i, q := range qs {
		in[i] = object.NewQuadkeyAndVerticalID(q.QZ, digitsToKey(q.Digits), q.VZ, q.VI, maxH, minH)
		keys[i] = []any{q.QZ, q.Digits, q.VZ, q.VI}
	}
	o, res := guard(func() (any, error) {
		return transform.ConvertQuadkeysAndVerticalIDsToExtendedSpatialIDs(in, hz, ovz)
	})
	e := absW.ev("BitBackList", map[string]any{"keys": keys, "hz": hz, "ovz": ovz, "S": S, "mn": mn, "mx": mx})
	e.O, e.Real = o, map[string]any{"maxHeight": fmt.Sprint(maxH), "minHeight": fmt.Sprint(minH)}
	e.R = []any{}
	if o == "panic" {
		e.Bad = "panic"
	} else {
		e.R = absW.projBIDList(strs(res), false, &e.Bad)
	}
	t.Emit(e, true)
}

func driveTiles(t *Tracer, r Rng, n int) {
	driveTileTwins(t, r, n/8)
	driveAltKeyTwins(t, r, n/8)
	for i := 0; i < n; {
		E := r.In(0, 35)
		O := r.offset()
		std := r.Chance(0.2) // the library's own constants: 1 m at zoom 25, key 0 at -2^24 m (or at the ground)
		if std {
			E, O = 25, r.Pick(1<<24, 1<<24, 0, 1<<25)
		}
		if r.Chance(0.5) {
			// tiles
			ovz := r.In(0, 28)
			k := 1 + r.Intn(3)
			ts := []Tile{}
			ok := true
			edgeCase := r.Chance(0.2) // keys next to / straddling an end of the altitude range
			if edgeCase {
				O = r.edgeOffset()
				ovz = r.In(0, 25)
			}
			for len(ts) < k {
				var x Tile
				if len(ts) > 0 && r.Chance(0.4) {
					x = ts[r.Intn(len(ts))]
					if r.Chance(0.5) { // neighbouring key: overlapping index ranges
						x.Z = maxI(0, x.Z+r.Pick(-1, 1))
					} else if r.Chance(0.5) { // the same footprint a few keys away: a GAP between the two ranges of one column
						x.Z = maxI(0, x.Z+r.Pick(2, 3, 5, -2, -3, -4))
					}
				} else {
					x.H = r.In(0, 35)
					x.X, x.Y = r.patternedIndex(x.H), r.patternedIndex(x.H)
					x.V = r.In(maxI(0, E-12), minI(35, E+3))
					if std || r.Chance(0.3) { // any key zoom, down to the root tile
						x.V = r.In(0, 35)
						if r.Chance(0.4) {
							ovz = x.V
						}
					}
					nk := int64(1) << uint(minI(x.V, 28))
					x.Z = r.edgeIn(0, nk-1)
					if r.Chance(0.5) {
						x.Z = r.In(0, minI(nk-1, 60))
					}
					if edgeCase {
						x.V = r.In(maxI(0, E-26), E)
						c := int64(1) << uint(E-x.V)
						x.Z = maxI(0, fdiv(O+r.Pick(-1, 1)*(int64(1)<<25), c)+r.Pick(-1, 0, 0, 0, 1))
					}
				}
				if !kzRepresentable(x.Z, x.V, ovz, E, O) {
					ok = false
					break
				}
				ts = append(ts, x)
			}
			for _, x := range ts { // (the output zoom may have been tied to a later tile's key zoom)
				if !kzRepresentable(x.Z, x.V, ovz, E, O) {
					ok = false
				}
			}
			if !ok {
				continue
			}
			sp := r.Chance(0.4)
			// cost bound: indices per tile and expansion size
			cost := int64(0)
			for _, x := range ts {
				a, b, err := transform.ConvertAltitudekeyToMinMaxZ(x.Z, x.V, ovz, E, O)
				if err == nil {
					c := b - a + 1
					var bits int64
					if sp {
						if x.H < ovz {
							bits = 2 * (ovz - x.H)
						} else {
							bits = x.H - ovz
							if (maxI(abs64(a), abs64(b))+1)<<uint(minI(40, bits)) >= 1<<28 {
								bits = 40 // expanded vertical index not representable in the model
							}
						}
					}
					if bits > 20 || c > 4000 {
						c = 1 << 30
					} else {
						c <<= uint(bits)
					}
					cost += c
				}
			}
			if cost > 3000 || cost < 0 {
				continue
			}
			evTiles(t, ts, E, O, ovz, sp)
		} else if r.Chance(0.5) {
			hz := r.In(1, 31)
			az := r.In(maxI(0, E-12), minI(35, E+3))
			k := 1 + r.Intn(3)
			ids := []BID{}
			ok := true
			cost := int64(0)
			edgeCase := r.Chance(0.2) // voxels next to an end of the key range / the lowest and highest index of their zoom
			if edgeCase {
				O = r.edgeOffset()
				az = r.In(maxI(0, E-26), E)
			}
			for len(ids) < k {
				var b BID
				if edgeCase {
					b = r.randomBID(absW, maxI(0, hz-3), 35, 25)
					c := int64(1) << uint(25-b.V)
					nz := int64(1) << uint(b.V)
					b.F = r.Pick(-nz, -nz+1, nz-1, fdiv(r.Pick(0, int64(1)<<uint(minI(E, 40)))-O, c)+r.Pick(-1, 0, 0, 1))
				} else if len(ids) > 0 && r.Chance(0.4) {
					b = ids[r.Intn(len(ids))]
					if r.Chance(0.5) {
						b.F += r.Pick(-1, 1)
					}
				} else {
					b = r.randomBID(absW, maxI(0, hz-3), 35, 35)
					nz := int64(1) << uint(minI(b.V, 28))
					b.F = r.edgeIn(-nz, nz-1)
					if r.Chance(0.5) {
						b.F = r.In(-40, 40)
					}
				}
				if !zkRepresentable(b.F, b.V, az, E, O) {
					ok = false
					break
				}
				a, c, err := transform.ConvertZToMinMaxAltitudekey(b.F, b.V, az, E, O)
				if err == nil {
					cost += (c - a + 1) << uint(minI(40, 2*maxI(0, hz-b.H)))
				}
				ids = append(ids, b)
			}
			if !ok || cost > 3000 || cost < 0 {
				continue
			}
			evExtToQKAlt(t, ids, hz, az, E, O)
		} else {
			continue
		}
		i++
	}
}

func driveBits(t *Tracer, r Rng, n int) {
	driveBitsFree(t, r, n/8)
	driveBitTwins(t, r, n/8)
	for i := 0; i < n; {
		if r.Chance(0.25) { // high subdivision zooms
			vz := r.In(13, 35)
			S := r.In(0, 12)
			cell := r.Pick(1, 2, 3, 4, 8, 5)
			mn := r.In(-200, 200)
			// the range must stay inside +-2^26 m: cell * 2^vz * 2^-S <= 2^26
			if float64(cell)*math.Ldexp(1, int(vz-S)) > math.Ldexp(1, 26) {
				continue
			}
			if r.Chance(0.5) {
				v := r.In(maxI(0, 25+S-6), minI(35, 25+S))
				sh := 25 - v + S
				f := (mn + r.In(-3*cell, 40*cell)) >> uint(sh)
				id := BID{V: v, F: f, H: r.In(0, 31)}
				id.X, id.Y = r.patternedIndex(id.H), r.patternedIndex(id.H)
				hz := r.In(maxI(1, id.H-20), minI(31, id.H+2))
				if ((int64(1) << uint(sh)) / cell) > 64 {
					continue
				}
				evBitFwdHi(t, id, hz, vz, S, mn, cell)
			} else {
				qz := r.In(1, 31)
				k := r.In(0, 50)
				ovz := r.In(0, 35)
				sh := ovz - 25 - S
				run := cell
				if sh > 0 {
					if sh > 20 {
						continue
					}
					run = cell << uint(sh)
				}
				if run > 64 || sh > 0 && (abs64(mn)+(k+1)*cell)<<uint(sh) >= 1<<28 {
					continue
				}
				evBitBackHi(t, QK{QZ: qz, Digits: r.quadOf(qz), VZ: vz, VI: k}, r.In(maxI(0, qz-20), minI(35, qz+2)), ovz, S, mn, cell)
			}
			i++
			continue
		}
		if r.Chance(0.5) { // forward
			vz := r.In(0, 12)
			if r.Chance(0.2) {
				vz = r.In(13, 35)
			}
			S := r.In(-4, 6)
			var span, mn int64
			if vz <= 12 {
				span = r.Pick(1, 3, 4, 5, 6, 10, 16, 500, 1<<uint(vz), 3<<uint(vz), 5<<uint(vz))
				mn = r.In(-300, 300)
				if r.Chance(0.3) {
					mn = -span / 2
				}
			} else { // aligned range: span = c * 2^vz units would overflow; use huge zoom only near the bottom
				continue
			}
			aligned := vz <= 8 && r.Chance(0.25)
			if aligned {
				// cells of an arbitrary whole number of units (odd parts 7, 49, 425, ...) and a voxel with a face exactly
				// on a cell border: where a rounded reciprocal or quotient lands on the wrong side
				span = r.In(1, 3000) << uint(vz)
			}
			mx := mn + span
			if r.Chance(0.03) {
				mx = mn - r.In(1, 5) // inverted range: error
			}
			v := r.In(maxI(0, 25+S-12), minI(35, 25+S))
			sh := 25 - v + S
			// voxel inside / straddling / outside the range
			cellU := int64(1) << uint(sh)
			f := (mn+r.In(-span/2-2*cellU, span+span/2+2*cellU))>>uint(sh) + 0
			if aligned && span > 0 {
				// v = 25 + S makes voxels one unit tall; bottom or top face on the border of cell kk
				v, sh, cellU = 25+S, 0, 1
				kk := r.In(0, int64(1)<<uint(vz))
				f = mn + kk*(span>>uint(vz)) - r.Pick(0, 1)
				if v < 0 || v > 35 {
					continue
				}
			}
			if r.Chance(0.1) {
				f = r.Pick(-1, 0)
			}
			id := BID{V: v, F: f}
			sp := r.Chance(0.25)
			if sp {
				id.H = v
			} else {
				id.H = r.In(0, 31)
			}
			id.X, id.Y = r.patternedIndex(id.H), r.patternedIndex(id.H)
			hz := r.In(maxI(1, id.H-20), minI(31, id.H+2))
			if hz < 1 {
				hz = 1
			}
			lo, hi := f<<uint(sh), (f+1)<<uint(sh)
			big := func(a int64) bool { return abs64(a-mn)<<uint(vz) >= 1<<28 || abs64(a) >= 1<<28 }
			if big(lo) || big(hi) || span<<uint(vz) >= 1<<28 {
				continue
			}
			// run length bound
			if (hi-lo)<<uint(vz)/maxI(1, abs64(span)) > 64 {
				continue
			}
			if abs64(f) >= int64(1)<<uint(v) && sp {
				continue
			}
			evBitFwd(t, id, hz, vz, S, mn, mx, sp)
			if mx > mn && !sp && r.Chance(0.5) {
				// the same voxel together with relatives on the same quadkeys: coarser / finer
				// vertical cells around it, vertical neighbours, a repeat
				ids := []BID{id}
				for k := 1 + r.Intn(3); k > 0; k-- {
					b := id
					switch r.Intn(4) {
					case 0:
						if b.V > 0 {
							b.V, b.F = b.V-1, b.F>>1
						}
					case 1:
						if b.V < 35 {
							b.V, b.F = b.V+1, b.F<<1+r.In(0, 1)
						}
					case 2:
						b.F += r.Pick(-1, 1)
					}
					if sh2 := 25 - b.V + S; sh2 < 0 || sh2 > 28 || big(b.F<<uint(sh2)) || big((b.F+1)<<uint(sh2)) {
						continue
					}
					ids = append(ids, b)
				}
				r.Shuffle(len(ids), func(i, j int) { ids[i], ids[j] = ids[j], ids[i] })
				evBitFwdList(t, ids, hz, vz, S, mn, mx)
			}
		} else { // backward
			vz := r.In(0, 12)
			S := r.In(-4, 6)
			span := r.Pick(1, 3, 4, 5, 6, 10, 16, 500, 1<<uint(vz), 3<<uint(vz))
			mn := r.In(-300, 300)
			mx := mn + span
			if r.Chance(0.03) {
				mx = mn - r.In(1, 5)
			}
			k := r.edgeIn(0, (int64(1)<<uint(vz))-1)
			qz := r.In(1, 31)
			x, y := r.patternedIndex(qz), r.patternedIndex(qz)
			d := make([]int64, qz)
			for j := int64(0); j < qz; j++ {
				d[j] = 2*((y>>uint(qz-1-j))&1) + (x>>uint(qz-1-j))&1
			}
			hz := r.In(maxI(0, qz-20), minI(35, qz+2))
			ovz := r.In(0, 35)
			// cell bounds numerators over 2^vz: loN = mn * 2^vz + k * span
			loN := mn<<uint(vz) + k*span
			hiN := loN + span
			sh := ovz - 25 - S - vz
			if abs64(loN) >= 1<<28 || abs64(hiN) >= 1<<28 || sh > 0 && (abs64(hiN)+1)<<uint(minI(sh, 40)) >= 1<<28 {
				continue
			}
			// run length: number of output cells across the input cell
			run := span
			if sh > 0 {
				run = span << uint(sh)
			} else {
				run = span >> uint(minI(-sh, 62))
			}
			if run > 64 {
				continue
			}
			evBitBack(t, QK{QZ: qz, Digits: d, VZ: vz, VI: k}, hz, ovz, S, mn, mx)
			if mx > mn && vz >= 1 && r.Chance(0.4) {
				// the same column's keys at other subdivision zooms with the SAME numbers (a merged binary column repeats
				// key 1 at successive zooms), a repeat, and a neighbour - converted back together
				qs := []QK{{QZ: qz, Digits: d, VZ: vz, VI: k}}
				okAll := true
				for _, dz := range []int64{-1, -2, 1} {
					vz2 := vz + dz
					if vz2 < 0 || vz2 > 12 || k > (int64(1)<<uint(vz2))-1 {
						continue
					}
					lo2 := mn<<uint(vz2) + k*span
					sh2 := ovz - 25 - S - vz2
					run2 := span
					if sh2 > 0 {
						run2 = span << uint(minI(sh2, 40))
					} else {
						run2 = span >> uint(minI(-sh2, 62))
					}
					if abs64(lo2) >= 1<<28 || abs64(lo2+span) >= 1<<28 || sh2 > 0 && (abs64(lo2+span)+1)<<uint(minI(sh2, 40)) >= 1<<28 || run2 > 64 {
						okAll = false
						continue
					}
					qs = append(qs, QK{QZ: qz, Digits: d, VZ: vz2, VI: k})
				}
				if r.Chance(0.3) {
					qs = append(qs, qs[0])
				}
				_ = okAll
				if len(qs) > 1 {
					r.Shuffle(len(qs), func(a, b int) { qs[a], qs[b] = qs[b], qs[a] })
					evBitBackList(t, qs, hz, ovz, S, mn, mx)
				}
			}
		}
		i++
	}
}

func init() {
	families["tiles"] = driveTiles
	families["bits"] = driveBits
	reg("ExtToQKAlt", func(t *Tracer, w Win, a map[string]any) {
		evExtToQKAlt(t, decBIDs(a["ids"]), decInt(a["hz"]), decInt(a["az"]), decInt(a["E"]), decInt(a["O"]))
	})
	decTiles := func(v any) []Tile {
		arr, _ := v.([]any)
		out := make([]Tile, len(arr))
		for i, x := range arr {
			a := x.([]any)
			out[i] = Tile{decInt(a[0]), decBits(a[1]), decBits(a[2]), decInt(a[3]), decInt(a[4])}
		}
		return out
	}
	reg("TilesToExt", func(t *Tracer, w Win, a map[string]any) {
		evTiles(t, decTiles(a["tiles"]), decInt(a["E"]), decInt(a["O"]), decInt(a["ovz"]), false)
	})
	reg("TilesToSp", func(t *Tracer, w Win, a map[string]any) {
		evTiles(t, decTiles(a["tiles"]), decInt(a["E"]), decInt(a["O"]), decInt(a["ovz"]), true)
	})
	reg("BitFwdFree", func(t *Tracer, w Win, a map[string]any) {
		var mn, mx uint64
		s1, _ := a["minH"].(string)
		s2, _ := a["maxH"].(string)
		if n1, _ := fmt.Sscanf(s1, "%x", &mn); n1 != 1 {
			return
		}
		if n2, _ := fmt.Sscanf(s2, "%x", &mx); n2 != 1 {
			return
		}
		evBitFwdFree(t, decBID(a["id"]), decInt(a["hz"]), decInt(a["vz"]), math.Float64frombits(mn), math.Float64frombits(mx))
	})
	reg("BitFwd", func(t *Tracer, w Win, a map[string]any) {
		evBitFwd(t, decBID(a["id"]), decInt(a["hz"]), decInt(a["vz"]), decInt(a["S"]), decInt(a["mn"]), decInt(a["mx"]), decBool(a["sp"]))
	})
	reg("BitFwdHi", func(t *Tracer, w Win, a map[string]any) {
		evBitFwdHi(t, decBID(a["id"]), decInt(a["hz"]), decInt(a["vz"]), decInt(a["S"]), decInt(a["mn"]), decInt(a["cell"]))
	})
	reg("BitBackHi", func(t *Tracer, w Win, a map[string]any) {
		k := a["key"].([]any)
		evBitBackHi(t, QK{QZ: decInt(k[0]), Digits: decInts(k[1]), VZ: decInt(k[2]), VI: decInt(k[3])},
			decInt(a["hz"]), decInt(a["ovz"]), decInt(a["S"]), decInt(a["mn"]), decInt(a["cell"]))
	})
	reg("BitBack", func(t *Tracer, w Win, a map[string]any) {
		k := a["key"].([]any)
		evBitBack(t, QK{QZ: decInt(k[0]), Digits: decInts(k[1]), VZ: decInt(k[2]), VI: decInt(k[3])},
			decInt(a["hz"]), decInt(a["ovz"]), decInt(a["S"]), decInt(a["mn"]), decInt(a["mx"]))
	})
}

// ---- lists whose members are "packed-key twins" --------------------------------------------------------------
// Two members (zoom, index) and (zoom', index') that are different voxels / tiles but equal under the usual ways of
// packing a zoom (0..35, six bits) and an index into one word with too narrow a zoom field: index<<5|zoom,
// index*32+zoom, index*35+zoom, index<<4|zoom.  The result for the list must be the union of the results for its
// members (C13: "each tile gets exactly the indices of its own range"; C17: "each voxel its own run of cells"),
// whatever the list order.  Strings on both sides (Law): no model bound on zooms or magnitudes.
func packedTwin(r Rng, z, a int64) (int64, int64, bool) {
	type za struct{ z, a int64 }
	c := []za{}
	if z >= 32 {
		c = append(c, za{z - 32, a + 1}, za{z - 32, a | 1}, za{z - 32, a})
	}
	if z <= 3 {
		c = append(c, za{z + 32, a - 1}, za{z + 32, a &^ 1}, za{z + 32, a})
	}
	if z == 35 {
		c = append(c, za{0, a + 1})
	}
	if z == 0 {
		c = append(c, za{35, a - 1})
	}
	if z >= 16 {
		c = append(c, za{z - 16, a + 1}, za{z - 16, a | 1})
	}
	if z < 16 {
		c = append(c, za{z + 16, a - 1}, za{z + 16, a &^ 1})
	}
	if len(c) == 0 {
		return 0, 0, false
	}
	p := c[r.Intn(len(c))]
	return p.z, p.a, true
}

func unionLaw(t *Tracer, name string, args map[string]any, n int, f func(idx []int) ([]string, string)) {
	all := make([]int, n)
	for i := range all {
		all[i] = i
	}
	whole, bad := f(all)
	set := map[string]bool{}
	memberErr := false
	for i := 0; i < n; i++ {
		one, b1 := f([]int{i})
		if b1 == "outcome err" {
			memberErr = true
			continue
		}
		if b1 != "" && bad == "" {
			bad = b1
		}
		for _, x := range one {
			set[x] = true
		}
	}
	if memberErr && (bad == "" || bad == "outcome err") {
		return // a member is refused on its own: whatever the list call does with it, the union law has no case
	}
	parts := make([]string, 0, len(set))
	for x := range set {
		parts = append(parts, x)
	}
	wset := map[string]bool{}
	for _, x := range whole {
		wset[x] = true
	}
	wl := make([]string, 0, len(wset))
	for x := range wset {
		wl = append(wl, x)
	}
	if len(wl) == 0 && len(parts) == 0 && bad == "" {
		return // nothing is returned for any member: no case
	}
	emitLaw(t, name, args, sortedCopy(wl), sortedCopy(parts), bad)
}

func driveTileTwins(t *Tracer, r Rng, n int) {
	for i := 0; i < n; i++ {
		// key zoom / key index twins; the altitude reference keeps every range small
		E := int64(25)
		O := r.Pick(0, 0, 1<<24)
		v1 := r.Pick(32, 33, 34, 35, 0, 1, 2, 3, 16, 17, 20)
		z1 := r.In(0, 6)
		if v1 <= 3 {
			z1 = r.In(1, (int64(1)<<uint(v1))-1+1)
		}
		v2, z2, ok := packedTwin(r, v1, z1)
		if !ok || z2 < 0 || v2 < 0 || v2 > 35 {
			continue
		}
		h := r.In(10, 30)
		x, y := r.In(0, (int64(1)<<uint(h))-2), r.In(0, (int64(1)<<uint(h))-1)
		ts := []Tile{{H: h, X: x, Y: y, V: v1, Z: z1}, {H: h, X: x + r.In(0, 1), Y: y, V: v2, Z: z2}}
		if r.Chance(0.3) {
			ts = append(ts, Tile{H: h, X: x, Y: y, V: r.In(20, 30), Z: r.In(0, 50)})
		}
		r.Shuffle(len(ts), func(i, j int) { ts[i], ts[j] = ts[j], ts[i] })
		ovz := r.In(4, 12)
		in := []*object.TileXYZ{}
		desc := []string{}
		for _, x := range ts {
			tile, err := object.NewTileXYZ(x.H, x.X, x.Y, x.V, x.Z)
			if err != nil {
				in = nil
				break
			}
			in = append(in, tile)
			desc = append(desc, fmt.Sprintf("%d/%d/%d/%d/%d", x.H, x.X, x.Y, x.V, x.Z))
		}
		if in == nil {
			continue
		}
		// every member must be convertible on its own and stay small
		small := true
		for _, x := range ts {
			a, b, err := transform.ConvertAltitudekeyToMinMaxZ(x.Z, x.V, ovz, E, O)
			if err != nil || b-a > 2100 {
				small = false
			}
		}
		if !small {
			continue
		}
		unionLaw(t, "TileListIsUnionOfMembers", map[string]any{"tiles": desc, "E": E, "O": O, "ovz": ovz}, len(in), func(idx []int) ([]string, string) {
			sub := []*object.TileXYZ{}
			for _, j := range idx {
				sub = append(sub, in[j])
			}
			o, res := guard(func() (any, error) { return transform.ConvertTileXYZsToExtendedSpatialIDs(sub, E, O, ovz) })
			if o != "ok" {
				return nil, "outcome " + o
			}
			ss := []string{}
			for _, id := range res.([]object.ExtendedSpatialID) {
				ss = append(ss, id.ID())
			}
			return ss, ""
		})
	}
}

// driveAltKeyTwins: the same for IDs -> (quadkey, altitude key) pairs (C11 / C12)
func driveAltKeyTwins(t *Tracer, r Rng, n int) {
	for i := 0; i < n; i++ {
		v1 := r.Pick(32, 33, 34, 35, 0, 1, 2, 3, 16, 17, 20)
		n1 := int64(1) << uint(v1)
		f1 := r.In(-3, 3)
		if f1 < -n1 || f1 > n1-1 {
			f1 = r.In(-n1, n1-1)
		}
		v2, f2, ok := packedTwin(r, v1, f1)
		if !ok {
			continue
		}
		if n2 := int64(1) << uint(v2); f2 < -n2 || f2 > n2-1 {
			continue
		}
		h := r.In(8, 28)
		x, y := r.In(0, (int64(1)<<uint(h))-2), r.In(0, (int64(1)<<uint(h))-1)
		ids := []string{ID{h, x, y, v1, f1}.String(), ID{h, x + 1, y, v2, f2}.String()}
		if r.Chance(0.3) {
			ids = append(ids, ID{h, x, y, r.In(22, 27), r.In(-40, 40)}.String())
		}
		r.Shuffle(len(ids), func(i, j int) { ids[i], ids[j] = ids[j], ids[i] })
		E, O := int64(25), r.Pick(1<<24, 1<<24, 0, 1<<25)
		hz, az := r.In(max(1, h-2), h), r.In(2, 10)
		unionLaw(t, "AltitudeKeyListIsUnionOfMembers", map[string]any{"ids": ids, "hz": hz, "az": az, "E": E, "O": O}, len(ids), func(idx []int) ([]string, string) {
			sub := []string{}
			for _, j := range idx {
				sub = append(sub, ids[j])
			}
			o, res := guard(func() (any, error) {
				return transform.ConvertExtendedSpatialIDsToQuadkeysAndAltitudekeys(sub, hz, az, E, O)
			})
			if o != "ok" {
				return nil, "outcome " + o
			}
			ss := []string{}
			for _, g := range res.([]*object.FromExtendedSpatialIDToQuadkeyAndAltitudekey) {
				for _, p := range g.InnerIDList() {
					ss = append(ss, fmt.Sprintf("%d/%d:%d/%d", g.QuadkeyZoom(), p[0], g.AltitudekeyZoom(), p[1]))
				}
			}
			return ss, ""
		})
	}
}

func driveBitTwins(t *Tracer, r Rng, n int) {
	for i := 0; i < n; i++ {
		v1 := r.Pick(32, 33, 34, 35, 0, 1, 2, 3, 16, 17, 20)
		n1 := int64(1) << uint(v1)
		f1 := r.In(-3, 3)
		if f1 < -n1 || f1 > n1-1 {
			f1 = r.In(-n1, n1-1)
		}
		v2, f2, ok := packedTwin(r, v1, f1)
		if !ok {
			continue
		}
		if n2 := int64(1) << uint(v2); f2 < -n2 || f2 > n2-1 {
			continue
		}
		h := r.In(8, 28)
		x, y := r.In(0, (int64(1)<<uint(h))-2), r.In(0, (int64(1)<<uint(h))-1)
		ids := []string{ID{h, x, y, v1, f1}.String(), ID{h, x + 1, y, v2, f2}.String()}
		if r.Chance(0.3) {
			ids = append(ids, ID{h, x, y, r.In(22, 27), r.In(-40, 40)}.String())
		}
		r.Shuffle(len(ids), func(i, j int) { ids[i], ids[j] = ids[j], ids[i] })
		// a height range of 2^k metres from a multiple of its cell, subdivided into at most 64 cells
		vz := r.In(1, 6)
		span := float64(r.Pick(256, 512, 1024, 300, 1000))
		minH := float64(r.Pick(0, -100, -128, -256, 64))
		hz := r.In(max(1, h-2), h)
		unionLaw(t, "HeightRangeListIsUnionOfMembers", map[string]any{"ids": ids, "hz": hz, "vz": vz, "min": minH, "max": minH + span}, len(ids), func(idx []int) ([]string, string) {
			sub := []string{}
			for _, j := range idx {
				sub = append(sub, ids[j])
			}
			o, res := guard(func() (any, error) {
				return transform.ConvertExtendedSpatialIDsToQuadkeysAndVerticalIDs(sub, hz, vz, minH+span, minH)
			})
			if o != "ok" {
				return nil, "outcome " + o
			}
			ss := []string{}
			for _, g := range res.([]*object.FromExtendedSpatialIDToQuadkeyAndVerticalID) {
				for _, p := range g.InnerIDList() {
					ss = append(ss, fmt.Sprintf("%d/%d:%d/%d", g.QuadkeyZoom(), p[0], g.VerticalZoom(), p[1]))
				}
			}
			return ss, ""
		})
	}
}
