package main

import (
	"runtime"
	"bufio"
	"bytes"
	"encoding/json"
	"fmt"
	"math/rand"
	"os"
	"time"
)

// Event is one recorded call of the real library in model coordinates.
type Event struct {
	Op string         `json:"op"`
	W  map[string]any `json:"w"`
	// Win is the full window "abs,H0,X0,Y0,V0,F0" (a string: real indices exceed
	// TLC's integers); used only to re-execute the call.
	Win string         `json:"win"`
	A   map[string]any `json:"a"`
	O   string         `json:"o"` // ok | err | panic
	R   any            `json:"r"`
	// Bad is non-empty when the real result could not be expressed in model
	// coordinates (malformed string, index far outside the window): the
	// specification requires it to be empty.
	Bad string `json:"bad"`
	// Real carries the real-coordinate arguments for the replay file; it is
	// not read by the trace specification.
	Real any `json:"real,omitempty"`
}

type Tracer struct {
	w       *bufio.Writer
	f       *os.File
	N       int
	calls   int
	seen    map[string]struct{} // distinct (op, args) keys
	nontr   int
	dropped int
}

func NewTracer(path string) *Tracer {
	f, err := os.Create(path)
	if err != nil {
		fmt.Fprintln(os.Stderr, "cannot create trace:", err)
		os.Exit(2)
	}
	t := &Tracer{w: bufio.NewWriterSize(f, 1<<20), f: f, seen: map[string]struct{}{}}
	hangTracer = t
	return t
}

// A call that does not come back.  Drivers whose calls may hang on broken code (a loop that stops making progress)
// register the event they are about to record in `inFlight`; if the call has not returned after hangLimit the event is
// recorded with a non-empty `bad` (which no specification clause accepts), the trace is closed and the process exits
// with status 3.  The check validates the trace up to there and re-executes the event: not returning twice is a
// reproduced rejection.
var (
	hangTracer *Tracer
	inFlight   *Event
	hangLimit  = 150 * time.Second
	memLimit   = uint64(12) << 30
)

const hangText = "the call did not return"

// Emit writes one event. nontrivial is the per-op rule for the evidence
// counter (e.g. result has more than one element / crosses a boundary).
func (t *Tracer) Emit(e Event, nontrivial bool) {
	if e.W == nil {
		e.W = Win{Abs: true}.J()
		e.Win = Win{Abs: true}.String()
	}
	if e.A == nil {
		e.A = map[string]any{}
	}
	if e.R == nil {
		e.R = []any{}
	}
	if tooBigAt(e.A, farLimit) {
		t.dropped++ // arguments not expressible in TLC's 32-bit integers: not a case
		return
	}
	if tooBig(e.R) && e.Bad == "" {
		e.Bad = "result outside the model's integer range"
		e.R = []any{}
	}
	e.Real = stringifyBig(e.Real)
	b, err := json.Marshal(e)
	if err != nil {
		fmt.Fprintln(os.Stderr, "marshal:", err)
		os.Exit(2)
	}
	if len(b) > 40<<20 {
		// no driver asks for a result of this size: the call returned far more than any correct answer holds.
		// Recorded as such (the specification accepts no event with a non-empty `bad`), not shipped entry by entry.
		e.Bad = fmt.Sprintf("the recorded result is %d MB large - far beyond anything this call can correctly return", len(b)>>20)
		e.R = []any{}
		if b, err = json.Marshal(e); err != nil {
			fmt.Fprintln(os.Stderr, "marshal:", err)
			os.Exit(2)
		}
	}
	// a nil slice stands for an empty list (TLC's Json module rejects null)
	b = bytes.ReplaceAll(b, []byte(":null"), []byte(":[]"))
	b = bytes.ReplaceAll(b, []byte("[null"), []byte("[[]"))
	b = bytes.ReplaceAll(b, []byte(",null"), []byte(",[]"))
	t.w.Write(b)
	t.w.WriteByte('\n')
	t.N++
	if t.N%100 == 0 {
		t.w.Flush() // a later call may blow up (mutated code): keep what was recorded
	}
	if nontrivial {
		ka, _ := json.Marshal(e.A)
		kw, _ := json.Marshal(e.W)
		key := e.Op + string(kw) + string(ka)
		if e.Op == "Determ" { // the arguments of these events are recorded in real coordinates
			kr, _ := json.Marshal(e.Real)
			key += string(kr)
		}
		if _, ok := t.seen[key]; !ok {
			t.seen[key] = struct{}{}
			t.nontr++
		}
	}
}

func (t *Tracer) Close() {
	t.w.Flush()
	t.f.Close()
}

// guard runs f and converts a panic into outcome "panic".
func guard(f func() (any, error)) (o string, r any) {
	defer func() {
		if p := recover(); p != nil {
			o = "panic"
			r = fmt.Sprint(p)
		}
	}()
	if ev := inFlight; ev != nil && hangTracer != nil {
		timer := time.AfterFunc(hangLimit, func() {
			e := *ev
			e.O, e.R = "hang", []any{}
			e.Bad = hangText + fmt.Sprintf(" within %v", hangLimit)
			hangTracer.Emit(e, true)
			hangTracer.Close()
			fmt.Fprintln(os.Stderr, "watchdog:", e.Op, "did not return")
			os.Exit(3)
		})
		defer timer.Stop()
		// ... or that allocates without bound: the runtime would kill the process without a trace
		stop := make(chan struct{})
		defer close(stop)
		go func() {
			tick := time.NewTicker(200 * time.Millisecond)
			defer tick.Stop()
			var ms runtime.MemStats
			for {
				select {
				case <-stop:
					return
				case <-tick.C:
					runtime.ReadMemStats(&ms)
					if ms.HeapAlloc > memLimit {
						e := *ev
						e.O, e.R = "hang", []any{}
						e.Bad = hangText + fmt.Sprintf(": more than %d GB of live heap", memLimit>>30)
						hangTracer.Emit(e, true)
						hangTracer.Close()
						fmt.Fprintln(os.Stderr, "watchdog:", e.Op, "allocates without bound")
						os.Exit(3)
					}
				}
			}
		}()
	}
	res, err := f()
	if err != nil {
		return "err", res
	}
	return "ok", res
}

// ---- random helpers --------------------------------------------------------
type Rng struct{ *rand.Rand }

func NewRng(seed int64) Rng { return Rng{rand.New(rand.NewSource(seed))} }

func (r Rng) In(lo, hi int64) int64 { // inclusive
	if hi <= lo {
		return lo
	}
	return lo + r.Int63n(hi-lo+1)
}
func (r Rng) Pick(xs ...int64) int64 { return xs[r.Intn(len(xs))] }
func (r Rng) Chance(p float64) bool  { return r.Float64() < p }

// edgeIn picks a value in [lo,hi] biased to the edges and to small magnitudes.
func (r Rng) edgeIn(lo, hi int64) int64 {
	switch r.Intn(6) {
	case 0:
		return lo
	case 1:
		return hi
	case 2:
		if lo+1 <= hi {
			return lo + 1
		}
		return lo
	case 3:
		if hi-1 >= lo {
			return hi - 1
		}
		return hi
	default:
		return r.In(lo, hi)
	}
}

// randomWindow draws a window able to host model zooms 0..depth on both axes.
// sameZoom forces H0 = V0 (needed by the single-zoom spatial-ID forms).
func (r Rng) randomWindow(hDepth, vDepth int64, sameZoom bool) Win {
	if r.Chance(0.35) {
		return Win{Abs: true}
	}
	w := Win{}
	maxH0 := 35 - hDepth
	if maxH0 < 6 {
		return Win{Abs: true}
	}
	switch r.Intn(4) {
	case 0:
		w.H0 = maxH0
	default:
		w.H0 = r.In(6, maxH0)
	}
	n := int64(1) << uint(w.H0)
	w.X0 = r.edgeIn(0, n-1)
	w.Y0 = r.edgeIn(0, n-1)
	if r.Chance(0.1) {
		w.Y0 = w.X0
	}
	if sameZoom {
		w.V0 = w.H0
	} else {
		maxV0 := 35 - vDepth
		if maxV0 < 0 {
			maxV0 = 0
		}
		switch r.Intn(4) {
		case 0:
			w.V0 = maxV0
		case 1:
			w.V0 = 0
		default:
			w.V0 = r.In(0, maxV0)
		}
	}
	nv := int64(1) << uint(w.V0)
	switch r.Intn(4) {
	case 0:
		w.F0 = -1
	case 1:
		w.F0 = 0
	case 2:
		w.F0 = -nv
	default:
		w.F0 = r.In(-nv, nv-1)
	}
	return w
}

// randomID draws a model ID inside a window of the given depth.  In Abs mode
// the depth is the real zoom (kept <= maxAbsZoom so TLC's 32-bit integers
// suffice).
func (r Rng) randomID(w Win, hDepth, vDepth int64) ID {
	h := r.In(0, hDepth)
	v := r.In(0, vDepth)
	return r.randomIDAt(w, h, v)
}

func (r Rng) randomIDAt(w Win, h, v int64) ID {
	nh := int64(1) << uint(h)
	nv := int64(1) << uint(v)
	id := ID{H: h, V: v}
	id.X = r.edgeIn(0, nh-1)
	id.Y = r.edgeIn(0, nh-1)
	if w.Abs || (w.V0 == 0 && w.F0 == 0) {
		// signed vertical index, biased to the ground plane
		switch r.Intn(5) {
		case 0:
			id.F = -1
		case 1:
			id.F = r.In(-minI(nv, 4), minI(nv-1, 3))
		default:
			id.F = r.edgeIn(-nv, nv-1)
		}
	} else {
		id.F = r.edgeIn(0, nv-1)
	}
	if r.Chance(0.06) {
		// numeric coincidences between the fields of one ID (real values in absolute mode and in
		// windows with X0 = Y0): x = y, f = x, an index equal to a zoom, round decimal numbers
		in := func(a, n int64) bool { return a >= 0 && a < n }
		switch r.Intn(6) {
		case 0:
			id.Y = id.X
		case 1:
			if in(id.X, nv) {
				id.F = id.X
			}
		case 2:
			if in(h, nh) {
				id.X = h
			}
		case 3:
			if in(v, nh) {
				id.Y = v
			}
		case 4:
			if in(v, nv) {
				id.F = v
			}
		default:
			p := r.Pick(10, 100, 1000, 10000, 100000)
			if in(p, nh) {
				id.X = p
			}
			if in(p, nv) && r.Chance(0.5) {
				id.F = p
			}
		}
	}
	return id
}

func minI(a, b int64) int64 {
	if a < b {
		return a
	}
	return b
}
func maxI(a, b int64) int64 {
	if a > b {
		return a
	}
	return b
}

// stringifyBig turns int64 values of the (informational) real-argument record
// into strings, so that no number in a trace exceeds TLC's 32-bit integers.
func stringifyBig(v any) any {
	switch x := v.(type) {
	case map[string]any:
		for k, y := range x {
			x[k] = stringifyBig(y)
		}
		return x
	case int64:
		return fmt.Sprint(x)
	case float64:
		return fmt.Sprint(x) // TLC's Json module has no real numbers
	case []int64:
		out := make([]string, len(x))
		for i, y := range x {
			out[i] = fmt.Sprint(y)
		}
		return out
	}
	return v
}

const modelIntLimit = int64(1) << 30

// tooBig reports whether a value contains an integer TLC could not represent.
func tooBig(v any) bool { return tooBigAt(v, modelIntLimit) }

// tooBigAt: arguments are held to the tighter bound beyond which results cannot be projected (farLimit)
func tooBigAt(v any, lim int64) bool {
	switch x := v.(type) {
	case map[string]any:
		for _, y := range x {
			if tooBigAt(y, lim) {
				return true
			}
		}
	case []any:
		for _, y := range x {
			if tooBigAt(y, lim) {
				return true
			}
		}
	case []int64:
		for _, y := range x {
			if y >= lim || y <= -lim {
				return true
			}
		}
	case [][]int64:
		for _, y := range x {
			if tooBigAt(y, lim) {
				return true
			}
		}
	case int64:
		return x >= lim || x <= -lim
	case int:
		return int64(x) >= lim || int64(x) <= -lim
	}
	return false
}
