"""Per-property wording for MANIFEST.json (levels, trusted base) and the hook commits."""
HOOK_COMMITS = ["31cbb23"]
NOTES = {}
NOT_APPLICABLE = {}
