"""Per-property wording for MANIFEST.json (levels, trusted base) and the hook commits."""
import os, sys
sys.path.insert(0, os.path.dirname(os.path.abspath(__file__)))
from props import PROPS
HOOK_COMMITS = ["31cbb23"]
NOT_APPLICABLE = {}
NOTES = {}
for pid, sp in PROPS.items():
    mcs = "; ".join(m.get("constants", "") for m in sp.get("mc", []) if m.get("constants"))
    NOTES[pid] = {
        "note": "Trusted / assumed: " + "; ".join(sp.get("assumptions", [])) + ". Exhaustive (a) runs: " + (mcs or "none") + ".",
        "technique": ("TLA+ spec + TLC: exhaustive small-scope model checking, TLC-generated steps replayed on the real code, "
                      "real-code traces validated line by line by TLC") if sp.get("level", "model_checking") == "model_checking"
                     else "real-code traces validated by TLC against the TLA+ acceptance predicate (numeric residuals measured by the harness)",
    }
NOTES["C18"]["text"] = ("Exploration: every recorded projection call (EPSG:3857 numerics, every bundled EPSG code structurally, unknown codes) is accepted or "
                        "rejected by TLC against the TLA+ predicate X_Project; the numeric residuals are measured by the harness, so this is not claimed as model checking.")
