"""Per-property plan: which exhaustive configurations (a), generators (b) and
drivers (c) decide each property, per tier.  See DESIGN.md section 5."""

Q, T = "quick", "thorough"

PROPS = {
    "C03": dict(
        level="model_checking",
        mc=[dict(module="MC_Grid.tla", cfg="MC_Zoom.cfg", constants="M=2: 294 voxels (signed f), singletons + pairs of one column, 9 targets")],
        gen=[dict(name="zoom", module="Gen_Grid.tla", cfg="Gen_Zoom.cfg", windows={Q: 4, T: 40})],
        drive=[dict(family="zoom", n={Q: 6000, T: 60000}, shards={Q: 1, T: 8})],
        rule="events = real calls of Change*Zoom / HorizontalZoom(MinMax) / VerticalZoom; distinct = distinct (op, window base zooms, model arguments); non-trivial = the call changes a zoom (result differs from input)",
        assumptions=["TLC", "window embedding/projection E,P (harness/win.go)", "TLA+ statement of C03 in SpatialMachine.tla (C03_*)"],
    ),
}
