"""Per-property plan: which exhaustive configurations (a), generators (b) and
drivers (c) decide each property, per tier.  See DESIGN.md section 5."""

Q, T = "quick", "thorough"

PROPS = {
    "C03": dict(
        level="model_checking",
        mc=[dict(module="MC_Grid.tla", cfg="MC_Zoom.cfg", constants="M=2: 294 voxels (signed f), singletons + pairs of one column, 9 targets")],
        gen=[dict(name="zoom", module="Gen_Grid.tla", cfg="Gen_Zoom.cfg", windows={Q: 4, T: 40})],
        drive=[dict(family="zoom", n={Q: 6000, T: 60000}, shards={Q: 1, T: 8})],
        rule="events = real calls of Change*Zoom / HorizontalZoom(MinMax) / VerticalZoom; distinct = distinct (op, window base zooms, model arguments); non-trivial = the call changes a zoom (result differs from input)",
        assumptions=["TLC", "window embedding/projection E,P (harness/win.go)", "TLA+ statement of C03 in SpatialMachine.tla (C03_*)"],
    ),
    "C04": dict(
        level="model_checking",
        mc=[dict(module="MC_Grid.tla", cfg="MC_Merge.cfg", constants="M=2; reduced merge grid (42 voxels): all pairs, triples of the coarser 18, complete descendant sets minus at most one cell; 9 targets"),
            dict(module="MC_Grid.tla", cfg="MC_Merge2.cfg", constants="M=2; pairs of 18 voxels; two consecutive merges (second merge stutters)")],
        gen=[dict(name="merge", module="Gen_Grid.tla", cfg="Gen_Merge.cfg", windows={Q: 2, T: 24})],
        drive=[dict(family="merge", n={Q: 2500, T: 12000}, shards={Q: 1, T: 8})],
        rule="events = real calls of Merge(Extended)SpatialIds, each followed by a second merge of its own output; distinct = distinct (op, window base zooms, model arguments); non-trivial = the merge replaced at least two inputs by a parent",
        assumptions=["TLC", "window embedding/projection E,P", "TLA+ statement of C04 (MergeDef / C04_* in SpatialMachine.tla, GridDef.tla)"],
    ),
    "C05": dict(
        level="model_checking",
        mc=[dict(module="MC_Grid.tla", cfg="MC_Overlap.cfg", constants="M=2: all 294 x 294 ordered pairs"),
            dict(module="MC_Grid.tla", cfg="MC_OverlapPairs.cfg", constants="M=2: all pairs of a 42-voxel column as first list x 294 probes")],
        gen=[dict(name="overlap", module="Gen_Grid.tla", cfg="Gen_Overlap.cfg", windows={Q: 2, T: 24})],
        drive=[dict(family="overlap", n={Q: 8000, T: 80000}, shards={Q: 1, T: 8})],
        rule="events = real calls of the four Check*Overlap functions, each in both argument orders; distinct = distinct (op, window, arguments); every event is non-trivial (a pair or a pair of lists)",
        assumptions=["TLC", "window embedding/projection E,P", "TLA+ statement of C05 (OverlapDef, C05_*)", "radix-tree checks are driven only inside the documented +-2^24 m altitude domain"],
    ),
    "C07": dict(
        level="model_checking",
        mc=[dict(module="MC_Grid.tla", cfg="MC_Shift.cfg", constants="M=2 absolute world: 294 voxels x dx in -16..16, dy in {-5,0,3}, dv in -1..1"),
            dict(module="MC_Grid.tla", cfg="MC_ShiftCompose.cfg", constants="M=2: 42 voxels x pairs of shifts in -2..2 x -2..2 x -1..1 (composition law)")],
        gen=[dict(name="shift", module="Gen_Grid.tla", cfg="Gen_Shift.cfg", windows={Q: 2, T: 24})],
        drive=[dict(family="shift", n={Q: 8000, T: 80000}, shards={Q: 1, T: 8})],
        rule="events = real calls of GetShiftingSpatialID (single shifts, and 4-call composition groups); distinct = distinct (op, window, arguments); non-trivial = non-zero shift",
        assumptions=["TLC", "window embedding/projection E,P (centred residues make the world wrap invisible in window mode; absolute mode checks the modulus itself up to zoom 28)", "TLA+ statement of C07 (Shift, C07_*)"],
    ),
    "C08": dict(
        level="model_checking",
        mc=[dict(module="MC_Grid.tla", cfg="MC_NLayer.cfg", constants="M=2: singletons + pairs of a column, layers 0..2 x 0..2")],
        gen=[dict(name="nlayer", module="Gen_Grid.tla", cfg="Gen_NLayer.cfg", windows={Q: 2, T: 16})],
        drive=[dict(family="shift", n={Q: 8000, T: 80000}, shards={Q: 1, T: 8})],
        rule="events = real calls of Get6/8/26... and GetNspatialIdsAroundVoxcels (layers 0..4), plus the shifts they are defined by; distinct = distinct (op, window, arguments)",
        assumptions=["TLC", "window embedding/projection E,P", "TLA+ statement of C08 (stencils, NLayer, C08_*)"],
    ),
    "C10": dict(
        level="model_checking",
        mc=[dict(module="MC_Grid.tla", cfg="MC_Notation.cfg", constants="M=2: all 294 voxels")],
        gen=[dict(name="notation", module="Gen_Grid.tla", cfg="Gen_Notation.cfg", windows={Q: 6, T: 60})],
        drive=[dict(family="notation", n={Q: 10000, T: 100000}, shards={Q: 1, T: 8})],
        rule="events = real calls of the sp<->ext converters, NewExtendedSpatialID + accessors, ConvertExtendedSpatialIDToSpatialIDs, GetVoxelIDfromSpatialID; distinct = distinct (op, window, arguments); non-trivial = non-empty list / h != v for expansion",
        assumptions=["TLC", "window embedding/projection E,P", "TLA+ statement of C10 (C10_*)"],
    ),
    "C01": dict(
        level="model_checking",
        mc=[dict(module="MC_Grid.tla", cfg="MC_Point.cfg", constants="M=2: all lattice points of depth 4 (17 longitudes incl. +180, 15 rows, 33 altitudes incl. +-2^25) + the latitude limits, 9 zoom pairs")],
        gen=[dict(name="point", module="Gen_Grid.tla", cfg="Gen_Point.cfg", windows={Q: 4, T: 40})],
        drive=[dict(family="point", n={Q: 10000, T: 100000}, shards={Q: 1, T: 8})],
        rule="events = real calls of Get(Extended)SpatialIdsOnPoints on lists of lattice points (x and f on/next to cell boundaries, rows strictly inside); distinct = distinct (op, window, points, zooms); non-trivial = non-empty list",
        assumptions=["TLC", "window embedding/projection E,P", "gamma: inverse Mercator in float64 (harness/lat.go); rows are decided by the model only for points at least a quarter row from a row border", "TLA+ statement of C01 (PointToVoxel, C01_Contains)"],
    ),
    "C02": dict(
        level="model_checking",
        mc=[dict(module="MC_Grid.tla", cfg="MC_Geom.cfg", constants="M=2: all 294 voxels: vertices = region box, centre round trip, shared faces, tiling")],
        gen=[dict(name="geom", module="Gen_Grid.tla", cfg="Gen_Geom.cfg", windows={Q: 6, T: 60})],
        drive=[dict(family="geom", n={Q: 10000, T: 100000}, shards={Q: 1, T: 8})],
        rule="events = real vertex / centre queries (both string forms) and face pairs (two vertex queries compared bit for bit); distinct = distinct (op, window, id)",
        assumptions=["TLC", "window embedding/projection E,P", "alpha: returned longitudes/altitudes must be exact lattice values, latitudes within 1e-10 deg + 6e-14 of the row border they name (harness/lat.go)", "TLA+ statement of C02 (Vertices, C02_*)"],
    ),
    "C09": dict(
        level="model_checking",
        mc=[dict(module="MC_Grid.tla", cfg="MC_Zoom.cfg", constants="M=2: zoom in then out, merge of all descendants (C09_InThenOut, C09_MergeDescendants)"),
            dict(module="MC_Grid.tla", cfg="MC_Point.cfg", constants="M=2: point lookups nested across all coarser zoom pairs (C09_LookupNested)")],
        drive=[dict(family="hier", n={Q: 10000, T: 100000}, shards={Q: 1, T: 8}),
               dict(family="zoom", n={Q: 2000, T: 20000}, shards={Q: 1, T: 4}),
               dict(family="merge", n={Q: 800, T: 4000}, shards={Q: 1, T: 4})],
        rule="hier events = (lookup fine, lookup coarse, zoom-out, overlap x2) on arbitrary float64 points, all ordered zoom pairs 0..35; zoom/merge events bind the individual steps; distinct = distinct (op, window, arguments); non-trivial = zooms differ",
        assumptions=["TLC", "the relations are checked between real results only (no reference value) for arbitrary points; lattice points are checked against PointToVoxel", "TLA+ statement of C09 (C09_*, X_Hier)"],
    ),
}
