"""Per-property plan: which exhaustive configurations (a), generators (b) and
drivers (c) decide each property, per tier.  See DESIGN.md section 5."""

Q, T = "quick", "thorough"

PROPS = {
    "C03": dict(
        level="model_checking",
        mc=[dict(module="MC_Grid.tla", cfg="MC_Zoom.cfg", constants="M=2: 294 voxels (signed f), singletons + pairs of one column, 9 targets")],
        gen=[dict(name="zoom", module="Gen_Grid.tla", cfg="Gen_Zoom.cfg", windows={Q: 4, T: 40})],
        drive=[dict(family="zoom", n={Q: 6000, T: 60000}, shards={Q: 1, T: 8})],
        rule="events = real calls of Change*Zoom / HorizontalZoom(MinMax) / VerticalZoom; distinct = distinct (op, window base zooms, model arguments); non-trivial = the call changes a zoom (result differs from input)",
        assumptions=["TLC", "window embedding/projection E,P (harness/win.go)", "TLA+ statement of C03 in SpatialMachine.tla (C03_*)"],
    ),
    "C04": dict(
        level="model_checking",
        mc=[dict(module="MC_Grid.tla", cfg="MC_Merge.cfg", constants="M=2; reduced merge grid (42 voxels): all pairs, triples of the coarser 18, complete descendant sets minus at most one cell; 9 targets"),
            dict(module="MC_Grid.tla", cfg="MC_Merge2.cfg", constants="M=2; pairs of 18 voxels; two consecutive merges (second merge stutters)")],
        gen=[dict(name="merge", module="Gen_Grid.tla", cfg="Gen_Merge.cfg", windows={Q: 2, T: 24})],
        drive=[dict(family="merge", n={Q: 2500, T: 12000}, shards={Q: 1, T: 8})],
        rule="events = real calls of Merge(Extended)SpatialIds, each followed by a second merge of its own output; distinct = distinct (op, window base zooms, model arguments); non-trivial = the merge replaced at least two inputs by a parent",
        assumptions=["TLC", "window embedding/projection E,P", "TLA+ statement of C04 (MergeDef / C04_* in SpatialMachine.tla, GridDef.tla)"],
    ),
    "C05": dict(
        level="model_checking",
        mc=[dict(module="MC_Grid.tla", cfg="MC_Overlap.cfg", constants="M=2: all 294 x 294 ordered pairs"),
            dict(module="MC_Grid.tla", cfg="MC_OverlapPairs.cfg", constants="M=2: all pairs of a 42-voxel column as first list x 294 probes")],
        gen=[dict(name="overlap", module="Gen_Grid.tla", cfg="Gen_Overlap.cfg", windows={Q: 2, T: 24})],
        drive=[dict(family="overlap", n={Q: 8000, T: 80000}, shards={Q: 1, T: 8})],
        rule="events = real calls of the four Check*Overlap functions, each in both argument orders; distinct = distinct (op, window, arguments); every event is non-trivial (a pair or a pair of lists)",
        assumptions=["TLC", "window embedding/projection E,P", "TLA+ statement of C05 (OverlapDef, C05_*)", "radix-tree checks are driven only inside the documented +-2^24 m altitude domain"],
    ),
    "C07": dict(
        level="model_checking",
        mc=[dict(module="MC_Grid.tla", cfg="MC_Shift.cfg", constants="M=2 absolute world: 294 voxels x dx in -16..16, dy in {-5,0,3}, dv in -1..1"),
            dict(module="MC_Grid.tla", cfg="MC_ShiftCompose.cfg", constants="M=2: 42 voxels x pairs of shifts in -2..2 x -2..2 x -1..1 (composition law)")],
        gen=[dict(name="shift", module="Gen_Grid.tla", cfg="Gen_Shift.cfg", windows={Q: 2, T: 24})],
        drive=[dict(family="shift", n={Q: 8000, T: 80000}, shards={Q: 1, T: 8})],
        rule="events = real calls of GetShiftingSpatialID (single shifts, and 4-call composition groups); distinct = distinct (op, window, arguments); non-trivial = non-zero shift",
        assumptions=["TLC", "window embedding/projection E,P (centred residues make the world wrap invisible in window mode; absolute mode checks the modulus itself up to zoom 28)", "TLA+ statement of C07 (Shift, C07_*)"],
    ),
    "C08": dict(
        level="model_checking",
        mc=[dict(module="MC_Grid.tla", cfg="MC_NLayer.cfg", constants="M=2: singletons + pairs of a column, layers 0..2 x 0..2")],
        gen=[dict(name="nlayer", module="Gen_Grid.tla", cfg="Gen_NLayer.cfg", windows={Q: 2, T: 16})],
        drive=[dict(family="shift", n={Q: 8000, T: 80000}, shards={Q: 1, T: 8})],
        rule="events = real calls of Get6/8/26... and GetNspatialIdsAroundVoxcels (layers 0..4), plus the shifts they are defined by; distinct = distinct (op, window, arguments)",
        assumptions=["TLC", "window embedding/projection E,P", "TLA+ statement of C08 (stencils, NLayer, C08_*)"],
    ),
    "C10": dict(
        level="model_checking",
        mc=[dict(module="MC_Grid.tla", cfg="MC_Notation.cfg", constants="M=2: all 294 voxels")],
        gen=[dict(name="notation", module="Gen_Grid.tla", cfg="Gen_Notation.cfg", windows={Q: 6, T: 60})],
        drive=[dict(family="notation", n={Q: 10000, T: 100000}, shards={Q: 1, T: 8})],
        rule="events = real calls of the sp<->ext converters, NewExtendedSpatialID + accessors, ConvertExtendedSpatialIDToSpatialIDs, GetVoxelIDfromSpatialID; distinct = distinct (op, window, arguments); non-trivial = non-empty list / h != v for expansion",
        assumptions=["TLC", "window embedding/projection E,P", "TLA+ statement of C10 (C10_*)"],
    ),
}
