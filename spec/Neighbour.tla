------------------------------ MODULE Neighbour ------------------------------
(***************************************************************************)
(* Shifting and neighbourhoods (C07, C08); mirrors operated/*.             *)
(***************************************************************************)
EXTENDS SpatialGrid

\* modular translation: x, y wrap modulo 2^h in absolute coordinates; the
\* vertical index is unbounded
Shift(s, dx, dy, dv, abs) ==
  <<s[1], WrapX(s[2] + dx, s[1], abs), WrapX(s[3] + dy, s[1], abs), s[4], s[5] + dv>>

\* offsets in the order the library emits them
Stencil6 == << <<-1,0,0>>, <<0,-1,0>>, <<0,0,-1>>, <<1,0,0>>, <<0,1,0>>, <<0,0,1>> >>
Stencil8 == << <<-1,0,0>>, <<0,-1,0>>, <<-1,-1,0>>, <<-1,1,0>>,
               <<1,0,0>>,  <<0,1,0>>,  <<1,1,0>>,   <<1,-1,0>> >>
Ring8At(dv) == [i \in 1..8 |-> <<Stencil8[i][1], Stencil8[i][2], dv>>]

\* 26 shell in library order: for dv = -1, 0, 1: (centre of the layer unless dv = 0), then its ring of 8
Shell26 == << <<0,0,-1>> >> \o Ring8At(-1) \o Ring8At(0) \o << <<0,0,1>> >> \o Ring8At(1)

OffsetSet6  == Range(Stencil6)
OffsetSet8  == Range(Stencil8)
OffsetSet26 == {<<a, b, c>> : a \in -1..1, b \in -1..1, c \in -1..1} \ {<<0,0,0>>}

NSeq(s, stencil, abs) ==
  [i \in 1..Len(stencil) |-> Shift(s, stencil[i][1], stencil[i][2], stencil[i][3], abs)]

N6(s, abs)  == NSeq(s, Stencil6, abs)
N8(s, abs)  == NSeq(s, Stencil8, abs)
N26(s, abs) == NSeq(s, Shell26, abs)

LayerOffsets(hl, vl) ==
  {<<a, b, c>> : a \in -hl..hl, b \in -hl..hl, c \in -vl..vl} \ {<<0,0,0>>}

NLayer(S, hl, vl, abs) ==
  {Shift(s, o[1], o[2], o[3], abs) : s \in S, o \in LayerOffsets(hl, vl)}
=============================================================================
