------------------------------- MODULE MC_Grid -------------------------------
(* Exhaustive small-scope configurations of SpatialMachine (one cfg per      *)
(* property family selects Ops / InitSets through these definitions).        *)
EXTENDS SpatialMachine

Singletons == {{s} : s \in AllVox}
\* a sub-grid for pair enumeration: one column of the world, all zooms, both signs
SubVox == {s \in AllVox : s[2] = 0 /\ s[3] = 0}
Pairs(S) == {{a, b} : a \in S, b \in S}
Triples(S) == {{a, b, c} : a \in S, b \in S, c \in S}

\* lattice points of depth M + 2 (x, f on / below / above every boundary; rows strictly inside)
K == M + 2
GridPoints == {<<K, U, W, K, A, 0>> : U \in 0..Pow2(K), W \in 1..(Pow2(K) - 1), A \in (-Pow2(K))..Pow2(K)}
LimitPoints == {<<K, U, 0, K, A, lim>> : U \in {0, 1, Pow2(K)}, A \in {-1, 0}, lim \in {-1, 1}}

InitSingletons == Singletons
InitPairs == Singletons \cup Pairs(SubVox)
InitEmpty == {{}}
AllPoints == GridPoints \cup LimitPoints
SmallShifts == {<<dx, dy, dv>> : dx \in -2..2, dy \in -2..2, dv \in -1..1}
WideShifts == {<<dx, dy, dv>> : dx \in (-4 * Pow2(M))..(4 * Pow2(M)), dy \in {-5, 0, 3}, dv \in {-1, 0, 1}}
GenShifts == {<<dx, dy, dv>> : dx \in {-5, -4, -1, 0, 1, 3, 4, 8}, dy \in {-4, -1, 0, 1, 5}, dv \in {-1, 0, 2}}
InitSub == {{s} : s \in SubVox}
\* generator: a thinner lattice (every boundary case of x and f, three rows per band)
GenPoints == {p \in GridPoints : p[5] \in {-Pow2(K), -Pow2(K) + 1, -5, -4, -1, 0, 1, 3, 4, Pow2(K) - 1, Pow2(K)}
                                  /\ p[3] \in {1, 2, 6, 7, 9, Pow2(K) - 1}} \cup LimitPoints
NoPoints == {}
NoShifts == {}

\* merge: the reduced grid (one quadrant column, vertical depth M) for set enumeration
MergeVox == {s \in AllVox : s[1] <= 1 /\ s[2] \in {0, 1} /\ s[3] = 0}
CompleteMinusOne(t, h, v) == LET D == ChangeZoomOne(t, h, v) IN {D} \cup {D \ {d} : d \in D}
\* (pairs / triples are built directly: SUBSET of a 42-element set is not enumerable)
MergeVoxSmall == {s \in MergeVox : s[4] <= 1}
InitMerge == Pairs(MergeVox) \cup Triples(MergeVoxSmall)
             \cup UNION {CompleteMinusOne(t, h, v) :
                           t \in {s \in MergeVox : s[1] = 0}, h \in 0..1, v \in 0..M}
InitMergeSmall == Pairs(MergeVoxSmall)
InitMergeGen == Pairs(MergeVox)
                \cup UNION {CompleteMinusOne(t, h, v) :
                              t \in {s \in MergeVox : s[1] = 0}, h \in 0..1, v \in 0..M}
InitSubPairs == Pairs(SubVox)
=============================================================================
