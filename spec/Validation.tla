------------------------------ MODULE Validation ------------------------------
(***************************************************************************)
(* C15: which arguments every error-returning exported function must       *)
(* refuse.  A decision table in TLA+: each function has typed parameter    *)
(* slots, each slot ranges over argument CLASSES, and Outcome(fn, classes) *)
(* is "err" exactly when some slot holds a class the documentation         *)
(* excludes.  MC_Validation enumerates every (function, class vector) with *)
(* at most two non-nominal slots; the replayer concretises each class to   *)
(* concrete values and performs the call on the real code (one             *)
(* implementation test per transition).                                    *)
(***************************************************************************)
EXTENDS Integers, Sequences, FiniteSets

\* ---- slot types and their classes ----------------------------------------
ArityKinds == {"arityminus", "arityplus", "emptystring"}
FieldKinds == {"emptyfield", "space", "alpha", "float", "overflow", "fullwidth"}
BadKinds == ArityKinds \cup FieldKinds
Classes(ty) ==
  CASE ty = "Zoom35"   -> {"mid", "zero", "max35", "neg1", "over36", "minint", "maxint"}
    [] ty = "ZoomQK"   -> {"mid", "one", "max31", "zero", "over32", "neg1"}
    [] ty = "TileZoom" -> {"mid", "zero", "max35", "neg1", "over36"}
    [] ty = "ExtId"    -> {"good"} \cup BadKinds
    [] ty = "SpId"     -> {"good"} \cup BadKinds
    [] ty \in {"ExtIdList", "SpIdList"} ->     \* <<shape, kind of the malformed entry>>
         {<<"good", "">>, <<"empty", "">>} \cup {<<pos, k>> : pos \in {"first", "middle", "last"}, k \in BadKinds}
    [] ty = "PointPtr"  -> {"good", "nil"}
    [] ty = "PointList" -> {"good", "empty", "nilfirst", "nillast"}
    [] ty = "Lon"       -> {"in", "edge180", "edgeNeg180", "over", "under", "posinf", "neginf"}
    [] ty = "Lat"       -> {"in", "edgeN", "edgeS", "over", "under", "posinf", "neginf"}
    [] ty = "Option"    -> {"vertex", "center", "two", "neg1"}
    [] ty = "Radius"    -> {"pos", "zero", "neg"}
    [] ty = "Layers"    -> {"one", "zero", "neg"}
    [] ty = "Heights"   -> {"equal", "normal", "inverted"}
    [] ty = "Index"     -> {"valid", "below", "above"}
    [] ty = "NumList"   -> {"good", "empty"}
    [] ty = "KeyList"   -> {"good", "empty", "qzoom0", "qzoom32", "vzoom36", "inverted"}


Nominal(ty) ==
  CASE ty \in {"Zoom35", "ZoomQK", "TileZoom"} -> "mid"
    [] ty \in {"ExtIdList", "SpIdList"} -> <<"good", "">>
    [] ty \in {"ExtId", "SpId", "PointPtr", "PointList", "NumList", "KeyList"} -> "good"
    [] ty \in {"Lon", "Lat"} -> "in"
    [] ty = "Option" -> "vertex"
    [] ty = "Radius" -> "pos"
    [] ty = "Layers" -> "one"
    [] ty = "Heights" -> "equal"
    [] ty = "Index" -> "valid"

\* ---- what the documentation excludes ----------------------------------------
\* parse = "all": the function interprets every field as an integer;
\* parse = "arity": it only re-arranges the '/'-separated fields
BadId(kind, parse) == kind \in ArityKinds \/ (parse = "all" /\ kind \in FieldKinds)

Excluded(ty, c, parse) ==
  CASE ty = "Zoom35"   -> c \in {"neg1", "over36", "minint", "maxint"}
    [] ty = "ZoomQK"   -> c \in {"zero", "over32", "neg1"}
    [] ty = "TileZoom" -> c \in {"neg1", "over36"}
    [] ty \in {"ExtId", "SpId"} -> c # "good" /\ BadId(c, parse)
    [] ty \in {"ExtIdList", "SpIdList"} -> c[1] \notin {"good", "empty"} /\ BadId(c[2], parse)
    [] ty = "PointPtr"  -> c = "nil"
    [] ty = "PointList" -> c \in {"nilfirst", "nillast"}
    [] ty \in {"Lon", "Lat"} -> c \in {"over", "under", "posinf", "neginf"}
    [] ty = "Option"    -> c \in {"two", "neg1"}
    [] ty = "Radius"    -> c = "neg"
    [] ty = "Layers"    -> c = "neg"
    [] ty = "Heights"   -> c = "inverted"
    [] ty = "Index"     -> c \in {"below", "above"}
    [] ty = "NumList"   -> c = "empty"
    [] ty = "KeyList"   -> c \in {"qzoom0", "qzoom32", "vzoom36", "inverted"}

\* ---- the functions ---------------------------------------------------------
\* kind: "err"   = has an error result
\*       "shift" = no error result: an empty ID (or a list of empty IDs) instead
F(name, slots, parse, kind) == [name |-> name, slots |-> slots, parse |-> parse, kind |-> kind]
Fns == {
  F("shape.GetSpatialIdsOnPoints", <<"PointList", "Zoom35">>, "all", "err"),
  F("shape.GetExtendedSpatialIdsOnPoints", <<"PointList", "Zoom35", "Zoom35">>, "all", "err"),
  F("shape.GetPointOnSpatialId", <<"SpId", "Option">>, "all", "err"),
  F("shape.GetPointOnExtendedSpatialId", <<"ExtId", "Option">>, "all", "err"),
  F("shape.ConvertSpatialIdsToExtendedSpatialIds", <<"SpIdList">>, "arity", "err"),
  F("shape.ConvertExtendedSpatialIdsToSpatialIds", <<"ExtIdList">>, "arity", "err"),
  F("shape.GetSpatialIdsOnLine", <<"PointPtr", "PointPtr", "Zoom35">>, "all", "err"),
  F("shape.GetExtendedSpatialIdsOnLine", <<"PointPtr", "PointPtr", "Zoom35", "Zoom35">>, "all", "err"),
  F("integrate.ChangeSpatialIdsZoom", <<"SpIdList", "Zoom35">>, "all", "err"),
  F("integrate.ChangeExtendedSpatialIdsZoom", <<"ExtIdList", "Zoom35", "Zoom35">>, "all", "err"),
  F("integrate.MergeSpatialIds", <<"SpIdList", "Zoom35">>, "all", "err"),
  F("integrate.MergeExtendedSpatialIds", <<"ExtIdList", "Zoom35", "Zoom35">>, "all", "err"),
  F("operated.GetNspatialIdsAroundVoxcels", <<"ExtIdList", "Layers", "Layers">>, "all", "errOrEmptyId"),
  F("operated.GetShiftingSpatialID", <<"ExtId">>, "all", "shift"),
  F("operated.Get6spatialIdsAdjacentToFaces", <<"ExtId">>, "all", "shift"),
  F("operated.Get8spatialIdsAroundHorizontal", <<"ExtId">>, "all", "shift"),
  F("operated.Get26spatialIdsAroundVoxel", <<"ExtId">>, "all", "shift"),
  F("detector.CheckSpatialIdsOverlap", <<"SpId", "SpId">>, "all", "err"),
  F("detector.CheckSpatialIdsArrayOverlap", <<"SpIdList", "SpIdList">>, "all", "err"),
  F("detector.CheckExtendedSpatialIdsOverlap", <<"ExtId", "ExtId">>, "all", "err"),
  F("detector.CheckExtendedSpatialIdsArrayOverlap", <<"ExtIdList", "ExtIdList">>, "all", "err"),
  F("transform.ConvertQuadkeysAndVerticalIDsToExtendedSpatialIDs", <<"KeyList", "Zoom35", "Zoom35">>, "all", "err"),
  F("transform.ConvertQuadkeysAndVerticalIDsToSpatialIDs", <<"KeyList", "Zoom35">>, "all", "err"),
  F("transform.ConvertExtendedSpatialIDsToQuadkeysAndVerticalIDs", <<"ExtIdList", "ZoomQK", "Zoom35", "Heights">>, "all", "err"),
  F("transform.ConvertSpatialIDsToQuadkeysAndVerticalIDs", <<"SpIdList", "ZoomQK", "Zoom35", "Heights">>, "all", "err"),
  F("transform.ConvertExtendedSpatialIDsToQuadkeysAndAltitudekeys", <<"ExtIdList", "ZoomQK", "Zoom35">>, "all", "err"),
  F("transform.ConvertTileXYZsToExtendedSpatialIDs", <<"Index", "Zoom35">>, "all", "err"),
  F("transform.ConvertTileXYZsToSpatialIDs", <<"Index", "Zoom35">>, "all", "err"),
  F("transform.ConvertZToMinMaxAltitudekey", <<"Index">>, "all", "err"),
  F("transform.ConvertAltitudekeyToMinMaxZ", <<"Index">>, "all", "err"),
  F("transform.GetExtendedSpatialIdsWithinRadiusOfLine", <<"PointPtr", "PointPtr", "Radius", "Zoom35", "Zoom35">>, "all", "err"),
  F("transform.FitClearanceAroundExtendedSpatialID", <<"ExtId", "Radius">>, "all", "err"),
  F("object.NewPoint", <<"Lon", "Lat">>, "all", "err"),
  F("object.SetLon", <<"Lon">>, "all", "err"),
  F("object.SetLat", <<"Lat">>, "all", "err"),
  F("object.NewExtendedSpatialID", <<"ExtId">>, "all", "err"),
  F("object.ResetExtendedSpatialID", <<"ExtId">>, "all", "err"),
  F("object.NewTileXYZ", <<"TileZoom", "TileZoom">>, "all", "err"),
  F("object.SetHZoom", <<"TileZoom">>, "all", "err"),
  F("object.SetVZoom", <<"TileZoom">>, "all", "err"),
  F("common.Max", <<"NumList">>, "all", "err"),
  F("common.Min", <<"NumList">>, "all", "err")
}
FnByName(n) == CHOOSE f \in Fns : f.name = n

\* does the class vector cv (sequence, one class per slot) contain an excluded class?
\* (per-entry checks - the height range - are not reached when the ID list is empty)
ListIsEmpty(f, cv) == Len(f.slots) >= 1 /\ f.slots[1] \in {"ExtIdList", "SpIdList"} /\ cv[1][1] = "empty"
SlotRefuses(f, cv, i) ==
  /\ Excluded(f.slots[i], cv[i], f.parse)
  /\ ~(f.slots[i] = "Heights" /\ ListIsEmpty(f, cv))
Refused(f, cv) == \E i \in 1..Len(f.slots) : SlotRefuses(f, cv, i)

\* The documentation promises the empty list for invalid ZOOM arguments and
\* `false` for the overlap checks; for a malformed entry in the middle of a list
\* the error is what counts (the entries converted so far may accompany it).
ZoomTypes == {"Zoom35", "ZoomQK", "TileZoom"}
OnlyZoomsRefuse(f, cv) ==
  \A i \in 1..Len(f.slots) : SlotRefuses(f, cv, i) => f.slots[i] \in ZoomTypes
IsOverlapCheck(f) == f.name \in {"detector.CheckSpatialIdsOverlap", "detector.CheckSpatialIdsArrayOverlap",
                                 "detector.CheckExtendedSpatialIdsOverlap", "detector.CheckExtendedSpatialIdsArrayOverlap"}
CompanionRequired(f, cv) == IsOverlapCheck(f) \/ OnlyZoomsRefuse(f, cv)

\* A malformed ID in a function whose documentation does not exclude it (a non-integer field handed to a converter
\* that only re-arranges fields): the property asks for nothing there except "no panic" - the library may pass the
\* field through or refuse it.
IdTypes == {"ExtId", "SpId", "ExtIdList", "SpIdList"}
Malformed(ty, c) == IF ty \in {"ExtId", "SpId"} THEN c # "good"
                    ELSE IF ty \in {"ExtIdList", "SpIdList"} THEN c[1] \notin {"good", "empty"} ELSE FALSE
Unconstrained(f, cv) ==
  \E i \in 1..Len(f.slots) : f.slots[i] \in IdTypes /\ Malformed(f.slots[i], cv[i]) /\ ~Excluded(f.slots[i], cv[i], f.parse)

\* acceptance of an observed outcome:
\*   o = "ok" / "err" / "panic"; companionEmpty = the accompanying value is the
\*   documented empty one (empty list, false, nil object); hasEmptyId = an empty
\*   ID string appears in the result
Accept(f, cv, o, companionEmpty, hasEmptyId) ==
  /\ o # "panic"                                         \* never a panic
  /\ IF Refused(f, cv)
     THEN CASE f.kind = "err" -> o = "err" /\ (CompanionRequired(f, cv) => companionEmpty)
            [] f.kind = "shift" -> hasEmptyId                   \* no error result: an empty ID
            [] f.kind = "errOrEmptyId" -> (o = "err") \/ hasEmptyId
     ELSE IF Unconstrained(f, cv) THEN o \in {"ok", "err"}
     ELSE o = "ok" /\ ~hasEmptyId
=============================================================================
