SPECIFICATION Spec
CONSTANTS Vox = {1, 2, 3}
          UseFirstOfMap = FALSE
INVARIANTS ResultDependsOnInputSetOnly
PROPERTIES InputUntouched
CHECK_DEADLOCK FALSE
