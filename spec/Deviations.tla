------------------------------ MODULE Deviations ------------------------------
(***************************************************************************)
(* Named deviations of the implementation from the specification.          *)
(*                                                                         *)
(* (1) Deviations still present in the code (recorded in                   *)
(*     /verif/known_findings.json): a recorded call that the specification *)
(*     rejects but that is explained EXACTLY by one of these operators is  *)
(*     reported as a known finding, anything else as a violation.          *)
(* (2) Deviations that were repaired in /repo ("fix:" commits): kept as    *)
(*     operators so that TLC can show, at design level, that each of them  *)
(*     breaks the property it was found by (MC_Deviations: non-vacuity).   *)
(***************************************************************************)
EXTENDS SpatialGrid, Line

\* ---- (1) open: D11 ---------------------------------------------------------
\* object.Point.SetLat is not idempotent: storing an already stored latitude can
\* cut it by another 1e-10 degree.  GetExtendedSpatialIdsOnLine looks its end
\* points up once from the caller's points and once more from re-created
\* points, so at zooms where 1e-10 degree is a noticeable part of a row the
\* recursion may start from the neighbouring row of an end voxel, which is then
\* missing from the chain; on a segment of constant latitude every interior
\* point is stored twice as well and the whole chain runs one row beside the
\* segment.  `retr` = the voxels (offsets from the start voxel) of the start and
\* end points when they are stored once more.
LineAcceptRetruncated(r, moves, endp, retr) ==
  LET R   == Range(r)
      Rx  == R \cup {retr[1], retr[2]}
      \* row shifts that storing an end point once more causes
      dys == {0, retr[1][2], retr[2][2] - endp[2]}
      T   == {<<p[1], p[2] + d, p[3]>> : p \in Touched(moves), d \in dys}
  IN  /\ (retr[1] # <<0, 0, 0>> \/ retr[2] # endp)      \* applies only when an end voxel moves
      /\ Adj26(retr[1], <<0, 0, 0>>) /\ Adj26(retr[2], endp)
      /\ retr[1][1] = 0 /\ retr[1][3] = 0                \* ... and only along the latitude axis
      /\ retr[2][1] = endp[1] /\ retr[2][3] = endp[3]
      /\ WalkEnd(moves) = endp
      /\ Cardinality(R) = Len(r)
      /\ <<0, 0, 0>> \in R /\ endp \in R
      /\ R \subseteq T                                   \* only voxels within one re-stored row of the segment
      /\ endp \in Reachable(Rx, <<0, 0, 0>>)            \* connected once the re-stored end voxels are added

\* the same defect seen through NewPoint / SetLat alone (C15): a latitude that already is a
\* multiple of 1e-10 degree is cut by one whole step (1e-10, not less than 1e-10).
\* cut = floor((|lat in| - |lat stored|) / 1e-13), exact on the float64 values
PointStoreWholeStep(lonSame, altSame, toward, cut, ongrid) ==
  lonSame /\ altSame /\ toward /\ ongrid /\ cut >= 1000 /\ cut <= 1001

\* ---- (1) open: D12 -----------------------------------------------------------
\* ConvertPointListToProjectedPointList hands the point's altitude to the third-party
\* datum transformation, whose geodetic <-> geocentric round trip loses accuracy with
\* height: the EPSG:3857 result is off by ~1e-6 m at 10 km, 2 cm at 1000 km, and lands in
\* the other hemisphere below -6378 km (inside the documented +-2^25 m domain).  The
\* deviation covers only the NUMERIC clauses of C18, only for lists containing a point
\* higher / lower than 5 km; structure, altitude bits and the error rule must hold.
\* (a latitude that comes back outside the valid range makes the reverse conversion return
\* a point without its altitude: part of the same finding, hence balt is not required)
ProjectHighAltitude(known, code, maxalt, isOk, n, rn, ralt, backok, bn, balt) ==
  /\ known /\ code = 3857 /\ maxalt > 5000
  /\ isOk /\ rn = n /\ ralt /\ backok /\ bn = n

\* ---- (2) repaired ------------------------------------------------------------
\* D1: vertical zoom-out with Go's truncating division
VerticalZoomMinMaxTrunc(zi, f, zo) ==
  IF zo < zi THEN LET a == TruncDiv(f, Pow2(zi - zo)) IN <<a, a>> ELSE VerticalZoomMinMax(zi, f, zo)
\* D2: Higher with truncating division
AncestorTrunc(s, h, v) ==
  <<h, s[2] \div Pow2(s[1] - h), s[3] \div Pow2(s[1] - h), v, TruncDiv(s[5], Pow2(s[4] - v))>>
\* D3: the radix-tree check offset the vertical index through a one-metre conversion
TreeIndexMetre(f, z) == IF z <= 25 THEN f + Pow2(z - 1)
                        ELSE (FloorDiv(f, Pow2(z - 25)) + Pow2(24)) * Pow2(z - 25)
TreeIndexExact(f, z) == f + Pow2(z - 1)
\* D6: upper altitude key computed with floor instead of ceiling
ZToKeyMaxFloor(f, zi, zo, E, O) ==
  ArithShift(ArithShift(f + 1, 25 - zi) + O, zo - E) - 1
=============================================================================
