SPECIFICATION Spec
CONSTANTS Vox = {1, 2, 3}
          UseFirstOfMap = TRUE
INVARIANTS ResultDependsOnInputSetOnly
PROPERTIES InputUntouched
CHECK_DEADLOCK FALSE
