SPECIFICATION Spec
CONSTANTS
  M = 3
  InitSets <- InitSingletons
  Points <- NoPoints
  ShiftOffsets <- NoShifts
  MaxLayers = 0
  Ops = {"Notation"}
  MaxDepth = 1
  MaxWs = 1000
INVARIANTS C10_Expand C10_RoundTrip

CHECK_DEADLOCK FALSE
