SPECIFICATION Spec
CONSTANTS Procs = {1, 2}
          Gates = 2
          SharedScratch = FALSE
INVARIANTS EmitSchedule
CHECK_DEADLOCK FALSE
