SPECIFICATION Spec
CONSTANTS
  M = 2
  InitSets <- InitSingletons
  Points <- NoPoints
  ShiftOffsets <- GenShifts
  MaxLayers = 0
  Ops = {"Shift"}
  MaxDepth = 1
  MaxWs = 1000
INVARIANTS Emit

CHECK_DEADLOCK FALSE
