SPECIFICATION Spec
CONSTANTS
  M = 3
  InitSets <- InitSingletons
  Points <- NoPoints
  ShiftOffsets <- NoShifts
  MaxLayers = 0
  Ops = {"Around", "Higher"}
  MaxDepth = 1
  MaxWs = 1000
INVARIANTS C08_AroundDef C03_HigherContains

CHECK_DEADLOCK FALSE
