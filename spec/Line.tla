--------------------------------- MODULE Line ---------------------------------
(***************************************************************************)
(* Line voxelisation (C06) and the corridor around a line (C14).           *)
(*                                                                         *)
(* A straight segment is abstracted to its WALK through the grid: the      *)
(* time-ordered list of boundary crossings, where crossings that cannot be *)
(* ordered (the segment passes through a voxel edge or corner, or within   *)
(* the coordinate resolution of one) are grouped into one move.  Positions *)
(* are voxel offsets <<x, y, f>> relative to the start voxel.              *)
(*   walk: p_0 = <<0,0,0>>, p_i = p_(i-1) + move_i, p_n = end voxel        *)
(*   Touched = UNION of the boxes spanned by p_(i-1) and p_i               *)
(* (for a single crossing the box is the two voxels sharing the face; for  *)
(* a tie of k axes it is the 2^k voxels around the shared edge / corner).  *)
(***************************************************************************)
EXTENDS Dyadic

Add3(p, d) == <<p[1] + d[1], p[2] + d[2], p[3] + d[3]>>
Between(a, b) == MinOf(a, b)..MaxOf(a, b)
Box(p, q) == {<<x, y, f>> : x \in Between(p[1], q[1]), y \in Between(p[2], q[2]), f \in Between(p[3], q[3])}

RECURSIVE WalkFrom(_, _, _)
\* returns <<final position, touched set>>
WalkFrom(p, moves, acc) ==
  IF moves = <<>> THEN <<p, acc \cup {p}>>
  ELSE LET q == Add3(p, Head(moves)) IN WalkFrom(q, Tail(moves), acc \cup Box(p, q))

WalkEnd(moves) == WalkFrom(<<0, 0, 0>>, moves, {})[1]
Touched(moves) == WalkFrom(<<0, 0, 0>>, moves, {})[2]

\* two voxels touch at least at a corner
Adj26(p, q) == /\ Abs(p[1] - q[1]) <= 1 /\ Abs(p[2] - q[2]) <= 1 /\ Abs(p[3] - q[3]) <= 1

RECURSIVE Grow(_, _, _)
Grow(seen, frontier, R) ==
  IF frontier = {} THEN seen
  ELSE LET nxt == {r \in R \ seen : \E q \in frontier : Adj26(q, r)}
       IN  Grow(seen \cup nxt, nxt, R)
Reachable(R, from) == IF from \in R THEN Grow({from}, {from}, R) ELSE {}

\* acceptance of a returned voxel list r (sequence of offsets) for a walk
LineAccept(r, moves, endp) ==
  LET R == Range(r) IN
  /\ WalkEnd(moves) = endp                     \* the walk is one from the start to the end voxel
  /\ Cardinality(R) = Len(r)                   \* duplicate-free
  /\ <<0, 0, 0>> \in R /\ endp \in R           \* both end voxels
  /\ R \subseteq Touched(moves)                \* only voxels the segment passes through
  /\ endp \in Reachable(R, <<0, 0, 0>>)        \* a connected chain (corner contact suffices)
  /\ (endp = <<0, 0, 0>> => R = {<<0, 0, 0>>}) \* both end points in one voxel: that single ID

\* ---- corridor (C14) -------------------------------------------------------
\* distance of two horizontal indices; circular when the world is small (mod > 0)
HDist(a, b, mod) == IF mod > 0 THEN MinOf((a - b) % mod, (b - a) % mod) ELSE Abs(a - b)
\* offsets within hl layers horizontally and vl vertically of some line voxel
WithinLayers(p, L, hl, vl, mod) ==
  \E q \in L : HDist(p[1], q[1], mod) <= hl /\ HDist(p[2], q[2], mod) <= hl /\ Abs(p[3] - q[3]) <= vl

\* Long segments parallel to a grid axis (thousands of voxels): the segment stays inside one row /
\* column / layer on the other two axes, so C06 leaves exactly one answer - the run of voxels from
\* the start voxel <<0,0,0>> to the end voxel n steps along the axis (n of either sign).
AxisUnit(axis, i) == IF axis = 1 THEN <<i, 0, 0>> ELSE IF axis = 2 THEN <<0, i, 0>> ELSE <<0, 0, i>>
AxisRun(axis, n) == {AxisUnit(axis, i) : i \in MinOf(0, n)..MaxOf(0, n)}
LineAxisAccept(r, axis, n) == Cardinality(Range(r)) = Len(r) /\ Range(r) = AxisRun(axis, n)
\* the corridor around such a segment: the layer box of a straight run is a box
InAxisBox(p, axis, n, fitH, fitV) ==
  \A i \in 1..3 :
     LET lay == IF i = 3 THEN fitV ELSE fitH
         lo == IF i = axis THEN MinOf(0, n) ELSE 0
         hi == IF i = axis THEN MaxOf(0, n) ELSE 0
     IN  lo - lay <= p[i] /\ p[i] <= hi + lay
CorridorAxisAccept(rm, rs, axis, n, fitH, fitV, zeroRadius) ==
  LET M == Range(rm)  S == Range(rs)  LL == AxisRun(axis, n) IN
  /\ Cardinality(M) = Len(rm) /\ Cardinality(S) = Len(rs)
  /\ LL \subseteq M /\ M \subseteq S
  /\ (zeroRadius => M = LL /\ S = LL)
  /\ \A p \in S : InAxisBox(p, axis, n, fitH, fitV)

\* Very long axis-parallel segments (up to a few hundred thousand voxels) are recorded by counts: entries, distinct
\* entries, smallest and largest coordinate along the axis, entries off the axis.  The run is complete exactly when
\* all entries are distinct, on the axis, between the end voxels, and as many as the run has voxels.
LineAxisCountAccept(c, n) ==
  /\ c.entries = c.distinct /\ c.offaxis = 0
  /\ c.lo = MinOf(0, n) /\ c.hi = MaxOf(0, n)
  /\ c.distinct = MaxOf(0, n) - MinOf(0, n) + 1

\* Long segments in general position (thousands of voxels).  The walk abstraction is too costly there, so
\* the harness measures, per returned voxel, whether the segment meets the voxel's box (in longitude,
\* latitude, altitude, box widened by 0.2 %): `off` lists the voxels it does not meet.  It hands the result
\* over ordered by progress along the segment; a connected chain then has every voxel adjacent to one of
\* the three before it (ties in progress may come in any order).
LineLongAccept(r, endp, off) ==
  /\ Cardinality(Range(r)) = Len(r)
  /\ <<0, 0, 0>> \in Range(r) /\ endp \in Range(r)
  /\ off = <<>>
  /\ \A i \in 2..Len(r) : \E j \in MaxOf(1, i - 3)..(i - 1) : Adj26(r[i], r[j])

\* The layer fit (FitClearanceAroundExtendedSpatialID): the number of voxels to step away, east-west
\* (first result) and north-south (second result), until the gap between the voxel and its shifted
\* copy is at least the clearance.  gaps[n] is the harness-measured gap (WGS84 chord, integer units)
\* to the copy n steps away, gaps[1] = 0 (neighbours touch); a fit of L layers says that the copy
\* L + 1 steps away is clear.  Measured lengths carry 1.2e-4.
\* Required: the fitted count is large enough.  NOT required: that it is the smallest such count
\* (FitMinimal): the library measures the gap with an iterative closest-point solver on two nearly
\* coplanar quadrilaterals, which reports too small a distance now and then (observed: 5% of the
\* north-south fits and 0.15% of the east-west fits are one, rarely two, layers larger than needed;
\* never smaller).  A larger count only widens the corridor's search box.
FitTol(x) == IF x = 0 THEN 0 ELSE x \div 8192 + 2
FitAccept(L, c, gaps) ==          \* (gaps increase; the table ends beyond 1.5 times the clearance)
  /\ 0 <= L
  /\ LET i == MinOf(L + 1, Len(gaps)) IN c <= gaps[i] + FitTol(gaps[i])
FitMinimal(L, c, gaps) == L = 0 \/ c > gaps[L] - FitTol(gaps[L])
FitMonotone(L1, L2) == L1[1] <= L2[1] /\ L1[2] <= L2[2]     \* a larger clearance never needs fewer layers

\* acceptance of the two corridor results (measured rm, measurement skipped rs)
\* for the line L and the largest layer counts fitH / fitV over the line
CorridorAccept(rm, rs, L, fitH, fitV, zeroRadius, far, mod) ==
  LET M == Range(rm)  S == Range(rs)  LL == Range(L) IN
  /\ Cardinality(M) = Len(rm) /\ Cardinality(S) = Len(rs)      \* duplicate-free
  /\ LL \subseteq M /\ LL \subseteq S                          \* always contains the line itself
  /\ (zeroRadius => M = LL /\ S = LL)                          \* radius 0: exactly the line
  /\ \A p \in S \ LL : WithinLayers(p, LL, fitH, fitV, mod)    \* inside the search box of the fitted layers
  /\ M \subseteq S                                             \* measuring only removes voxels
  /\ far = <<>>                                                \* nothing farther than the radius is added
=============================================================================
