SPECIFICATION Spec
CONSTANTS
  M = 3
  InitSets <- InitPairs
  Points <- NoPoints
  ShiftOffsets <- NoShifts
  MaxLayers = 2
  Ops = {"NLayer"}
  MaxDepth = 1
  MaxWs = 1000
INVARIANTS C08_Symmetric C08_Count

CHECK_DEADLOCK FALSE
