---------------------------- MODULE SpatialMachine ----------------------------
(***************************************************************************)
(* The library as a state machine.  The state is what a client holds: a    *)
(* working set `ws` of extended IDs; every public operation of the         *)
(* library that transforms ID sets is one named action.  `last` records    *)
(* the step just taken (operation, arguments, result) and is what the      *)
(* conformance harness replays into / compares with the real code.         *)
(*                                                                         *)
(* The machine lives in a small absolute world of depth M (GridDef), so    *)
(* TLC can evaluate the definitional statements of the properties at every *)
(* step.  The same actions, in unbounded coordinates, are re-used by       *)
(* Trace.tla to validate recorded executions of the real code.             *)
(***************************************************************************)
EXTENDS GridDef, Neighbour, TLC

CONSTANTS InitSets,      \* set of initial working sets
          Points,        \* lattice points offered to Lookup
          ShiftOffsets,  \* set of <<dx, dy, dv>> offered to Shift
          MaxLayers,     \* NLayer layer counts 0..MaxLayers
          Ops,           \* names of the actions enabled in this configuration
          MaxDepth,      \* bound on the number of steps in a behaviour
          MaxWs          \* bound on |ws| (state constraint)

VARIABLES ws, last, depth,
          pt     \* the point the client currently holds (constant along a behaviour)
vars == <<ws, last, depth, pt>>

NoStep == [op |-> "Init", a |-> <<>>, pre |-> {}, res |-> {}]

Init == /\ ws \in InitSets
        /\ last = [NoStep EXCEPT !.res = ws]
        /\ depth = 0
        /\ pt \in (IF Points = {} THEN {<<>>} ELSE Points)

Step(op, a, res) == /\ depth < MaxDepth
                    /\ pt' = pt
                    /\ depth' = depth + 1
                    /\ last' = [op |-> op, a |-> a, pre |-> ws, res |-> res]

\* --- actions --------------------------------------------------------------
Lookup(p, h, v) ==
  /\ "Lookup" \in Ops
  /\ p # <<>>
  /\ LatDecided(p, h)
  /\ ws' = ws \cup {PointToVoxel(p, h, v, TRUE)}
  /\ Step("Lookup", <<p, h, v>>, {PointToVoxel(p, h, v, TRUE)})

DoChangeZoom(h, v) ==
  /\ "ChangeZoom" \in Ops
  /\ ws # {}
  /\ ws' = ChangeZoom(ws, h, v)
  /\ Step("ChangeZoom", <<h, v>>, ws')

DoMerge(h, v) ==
  /\ "Merge" \in Ops
  /\ ws # {}
  /\ ws' = MergeImpl(ws, h, v)
  /\ Step("Merge", <<h, v>>, ws')

DoShift(o) ==
  /\ "Shift" \in Ops
  /\ ws # {}
  /\ ws' = {Shift(s, o[1], o[2], o[3], TRUE) : s \in ws}
  /\ \A s \in ws' : s \in AllVox          \* stay inside the small world vertically
  /\ Step("Shift", o, ws')

DoNLayer(hl, vl) ==
  /\ "NLayer" \in Ops
  /\ ws # {}
  /\ LET n == NLayer(ws, hl, vl, TRUE) IN
     /\ \A s \in n : s \in AllVox
     /\ ws' = n
     /\ Step("NLayer", <<hl, vl>>, n)

\* every voxel replaced by its ancestor dh / dv levels up (ExtendedSpatialID.Higher), as far as its zoom allows
DoHigher(dh, dv) ==
  /\ "Higher" \in Ops
  /\ ws # {}
  /\ ws' = {Higher(s, MinOf(dh, s[1]), MinOf(dv, s[4])) : s \in ws}
  /\ Step("Higher", <<dh, dv>>, ws')

\* the 6 / 8 / 26 neighbours of one member join the working set
AroundOf(s, k) == Range(IF k = 6 THEN N6(s, TRUE) ELSE IF k = 8 THEN N8(s, TRUE) ELSE N26(s, TRUE))
DoAround(s, k) ==
  /\ "Around" \in Ops
  /\ ws' = ws \cup AroundOf(s, k)
  /\ Step("Around", <<s, k>>, AroundOf(s, k))

\* query: does the working set overlap the probe? (state unchanged)
DoOverlap(b) ==
  /\ "Overlap" \in Ops
  /\ ws # {}
  /\ ws' = ws
  /\ Step("Overlap", b, OverlapArr(ws, {b}))

\* query: notation round trips and expansion of one voxel of the working set
DoNotation(s) ==
  /\ "Notation" \in Ops
  /\ ws' = ws
  /\ Step("Notation", s, ExpandImpl(s))

\* query: geometry of one voxel of the working set
DoGeom(s) ==
  /\ "Geom" \in Ops
  /\ ws' = ws
  /\ Step("Geom", s, Vertices(s))

Next == \/ \E s \in ws, k \in {6, 8, 26} : DoAround(s, k)
        \/ \E dh \in 0..2, dv \in 0..2 : DoHigher(dh, dv)
        \/ \E s \in ws : DoNotation(s)
        \/ \E s \in ws : DoGeom(s)
        \/ \E h \in Zooms, v \in Zooms : Lookup(pt, h, v)
        \/ \E h \in Zooms, v \in Zooms : DoChangeZoom(h, v)
        \/ \E h \in Zooms, v \in Zooms : DoMerge(h, v)
        \/ \E o \in ShiftOffsets : DoShift(o)
        \/ \E hl \in 0..MaxLayers, vl \in 0..MaxLayers : DoNLayer(hl, vl)
        \/ \E b \in AllVox : DoOverlap(b)

Spec == Init /\ [][Next]_vars

Bounded == Cardinality(ws) <= MaxWs

\* --- the listed properties, as invariants on the step just taken ----------
IsOp(o) == last.op = o

\* C03: exactly the target-grid voxels that intersect the inputs
C03_Exact == IsOp("ChangeZoom") =>
               last.res = ChangeZoomDef(last.pre, last.a[1], last.a[2])
\* the definitional answer for a list is the union of the definitional answers for its members: the lemma behind the
\* "<Op>ListIsUnionOfMembers" laws that the harness states on real results for zooms the model cannot hold
C03_ListIsUnion == IsOp("ChangeZoom") =>
               ChangeZoomDef(last.pre, last.a[1], last.a[2]) =
                  UNION {ChangeZoomDef({s}, last.a[1], last.a[2]) : s \in last.pre}
C03_AtTarget == IsOp("ChangeZoom") =>
               \A t \in last.res : t[1] = last.a[1] /\ t[4] = last.a[2]
\* zoom-in partitions, zoom-out gives the single ancestor (stated per voxel)
C03_Partition == IsOp("ChangeZoom") =>
   \A s \in last.pre :
      LET R == ChangeZoomOne(s, last.a[1], last.a[2])
          dh == last.a[1] - s[1]
          dv == last.a[2] - s[4]
      IN  /\ (dh >= 0 /\ dv >= 0) =>
               /\ Cardinality(R) = Pow2(2 * dh) * Pow2(dv)
               /\ RegionOf(R) = Region(s)
               /\ \A t1, t2 \in R : t1 # t2 => Region(t1) \cap Region(t2) = {}
          /\ (dh <= 0 /\ dv <= 0) =>
               /\ Cardinality(R) = 1
               /\ \A t \in R : Region(s) \subseteq Region(t)
\* ancestor of f = -1 is -1 at every coarser zoom
C03_FloorBelowGround == IsOp("ChangeZoom") =>
   \A s \in last.pre : (s[5] = -1 /\ last.a[2] <= s[4]) =>
        \A t \in ChangeZoomOne(s, last.a[1], last.a[2]) : t[5] = -1

\* C04
C04_RegionPreserved == IsOp("Merge") => RegionOf(last.res) = RegionOf(last.pre)
C04_Exact == IsOp("Merge") => last.res = MergeDef(last.pre, last.a[1], last.a[2])
C04_Idempotent == IsOp("Merge") =>
                    MergeImpl(last.res, last.a[1], last.a[2]) = last.res
\* the step-by-step form (the exported building blocks) assembles to the same result
C04_StepsAssemble == IsOp("Merge") =>
   LET h == last.a[1]  v == last.a[2]  S == last.pre
       E == {s \in S : Eligible(s, h, v)}
       mh == SetMax({s[1] : s \in S} \cup {0})
       mv == SetMax({s[4] : s \in S} \cup {0})
       G == MergeSteps(E, h, v, mh, mv)
       dense == {g[1] : g \in {x \in G : x[2]}}
   IN  /\ {g[1] : g \in G} = {Ancestor(s, h, v) : s \in E}
       /\ last.res = (S \ E) \cup dense \cup {s \in E : Ancestor(s, h, v) \notin dense}
       /\ \A g \in G : g[2] <=> (Region(g[1]) \subseteq RegionOf(E))     \* dense = the group's inputs fill the ancestor
Mirror(s) == <<s[1], s[2], s[3], s[4], -s[5] - 1>>
C04_MirrorSymmetric == IsOp("Merge") =>
   MergeImpl({Mirror(s) : s \in last.pre}, last.a[1], last.a[2])
      = {Mirror(s) : s \in last.res}

\* C05
C05_Exact == IsOp("Overlap") =>
   last.res = (\E a \in last.pre : OverlapDef(a, last.a))
C05_Symmetric == IsOp("Overlap") =>
   \A a \in last.pre : OverlapImpl(a, last.a) = OverlapImpl(last.a, a)
C05_Reflexive == IsOp("Overlap") => OverlapImpl(last.a, last.a)

\* C01: the voxel returned for a point contains it, and is in range
PointCell(p) ==   \* the unit cell(s) a lattice point is the NW-bottom corner of
  <<ScaleFloor(p[2], M, p[1]) % Pow2(M),
    IF p[6] = 1 THEN 0 ELSE IF p[6] = -1 THEN Pow2(M) - 1 ELSE ScaleFloor(p[3], M, p[1]),
    ScaleFloor(p[5], M, p[4])>>
C01_Contains == IsOp("Lookup") =>
   \A t \in last.res : /\ 0 <= t[2] /\ t[2] < Pow2(t[1]) /\ 0 <= t[3] /\ t[3] < Pow2(t[1])
                       /\ (PointCell(last.a[1]) \in Unit => InRegion(PointCell(last.a[1]), t))

\* A lattice point also stands for every point of the lattice cell it is the corner of: any point of a
\* twice finer lattice inside that cell has the same voxel at every zoom not finer than the cell
\* (this is what lets the harness abstract an arbitrary coordinate to the cell that contains it).
C01_CellStandsForItsPoints == IsOp("Lookup") =>
   LET p == last.a[1]  h == last.a[2]  v == last.a[3] IN
     (p[6] = 0 /\ h <= p[1] /\ v <= p[4]) =>
        \A du \in 0..3, dw \in 0..3, da \in 0..3 :
           LET q == <<p[1] + 2, 4 * p[2] + du, 4 * p[3] + dw, p[4] + 2, 4 * p[5] + da, 0>>
           IN  PointToVoxel(q, h, v, TRUE) = PointToVoxel(p, h, v, TRUE)

\* C07 / C08 on the machine: shifting keeps indices in range and is a bijection
C07_InRange == IsOp("Shift") => \A t \in last.res : ValidAbsId(t)
C07_Bijective == IsOp("Shift") => Cardinality(last.res) = Cardinality(last.pre)
C07_Inverse == IsOp("Shift") =>
   {Shift(t, -last.a[1], -last.a[2], -last.a[3], TRUE) : t \in last.res} = last.pre
C08_Symmetric == IsOp("NLayer") =>
   \A t \in last.res : \E s \in last.pre :
       s \in NLayer({t}, last.a[1], last.a[2], TRUE) \/ s = t
C08_Count == IsOp("NLayer") =>
   \A s \in last.pre :
      (2 * last.a[1] + 1 <= Pow2(s[1])) =>
         LET n == NLayer({s}, last.a[1], last.a[2], TRUE) IN
           /\ Cardinality(n) = (2 * last.a[1] + 1) * (2 * last.a[1] + 1) * (2 * last.a[2] + 1) - 1
           /\ s \notin n

\* neighbours, stated on index distances: same zooms, not the voxel itself, at most one step away on
\* every axis (east-west and north-south distances taken around the world), and for the
\* 6-neighbourhood exactly one step in total, for the 8-ring none vertically
CycAbs(d, n) == LET r == d % n IN MinOf(r, n - r)
AroundDef(s, k) ==
  {t \in {<<s[1], x, y, s[4], f>> : x \in 0..(Pow2(s[1]) - 1), y \in 0..(Pow2(s[1]) - 1), f \in (s[5] - 1)..(s[5] + 1)} :
     LET ax == CycAbs(t[2] - s[2], Pow2(s[1]))
         ay == CycAbs(t[3] - s[3], Pow2(s[1]))
         af == IF t[5] >= s[5] THEN t[5] - s[5] ELSE s[5] - t[5]
     IN  /\ t # s /\ ax <= 1 /\ ay <= 1
         /\ (k = 6 => ax + ay + af = 1)
         /\ (k = 8 => af = 0)}
C08_AroundDef == IsOp("Around") =>
   LET s == last.a[1]  k == last.a[2] IN
     /\ last.res \ {s} = AroundDef(s, k)                      \* (on grids narrower than the stencil the voxel is its own neighbour)
     /\ (3 <= Pow2(s[1]) => Cardinality(last.res) = k /\ s \notin last.res)
     /\ \A t \in last.res : s \in AroundOf(t, k)              \* symmetric
     /\ AroundOf(s, 6) \subseteq AroundOf(s, 26) /\ AroundOf(s, 8) \subseteq AroundOf(s, 26)
     /\ AroundOf(s, 26) = NLayer({s}, 1, 1, TRUE)
\* Higher: the one voxel of the coarser grid that contains the original
C03_HigherContains == IsOp("Higher") =>
   \A s \in last.pre :
      LET dh == MinOf(last.a[1], s[1])  dv == MinOf(last.a[2], s[4])  t == Higher(s, dh, dv) IN
        /\ t \in last.res /\ t[1] = s[1] - dh /\ t[4] = s[4] - dv
        /\ Region(s) \subseteq Region(t)
        /\ ChangeZoomDef({s}, t[1], t[4]) = {t}

\* C09: hierarchy laws, evaluated on every ChangeZoom / Merge step
C09_InThenOut == IsOp("ChangeZoom") =>
   \A s \in last.pre :
      (last.a[1] >= s[1] /\ last.a[2] >= s[4]) =>
          ChangeZoom(ChangeZoomOne(s, last.a[1], last.a[2]), s[1], s[4]) = {s}
C09_MergeDescendants == IsOp("ChangeZoom") =>
   \A s \in last.pre :
      (last.a[1] >= s[1] /\ last.a[2] >= s[4]) =>
          MergeImpl(ChangeZoomOne(s, last.a[1], last.a[2]), s[1], s[4]) = {s}
C09_LookupNested == IsOp("Lookup") =>
   LET p == last.a[1] h == last.a[2] v == last.a[3] IN
   \A h2 \in 0..h, v2 \in 0..v :
      LatDecided(p, h2) =>
        /\ ChangeZoom(last.res, h2, v2) = {PointToVoxel(p, h2, v2, TRUE)}
        /\ OverlapArr(last.res, {PointToVoxel(p, h2, v2, TRUE)})

\* C02: the vertices are the corners of the voxel's region; the centre maps
\* back to the voxel; voxels sharing a face share its corners; one zoom tiles space
RegionMin(s, i) == SetMin({c[i] : c \in Region(s)})
RegionMax(s, i) == SetMax({c[i] : c \in Region(s)})
\* a lattice coordinate n / 2^k expressed at unit depth M
AtUnit(n, k) == n * Pow2(M - k)
C02_VerticesAreBox == IsOp("Geom") =>
   LET s == last.a  vs == last.res IN
   /\ Len(vs) = 8
   /\ \A i \in 1..8 :
        /\ AtUnit(vs[i][2], vs[i][1]) = (IF i \in {1, 4, 5, 8} THEN RegionMin(s, 1) ELSE RegionMax(s, 1) + 1)
        /\ AtUnit(vs[i][3], vs[i][1]) = (IF i \in {1, 2, 5, 6} THEN RegionMin(s, 2) ELSE RegionMax(s, 2) + 1)
        /\ AtUnit(vs[i][5], vs[i][4]) = (IF i <= 4 THEN RegionMin(s, 3) ELSE RegionMax(s, 3) + 1)
C02_CentreRoundTrip == IsOp("Geom") =>
   LET s == last.a
       c == <<s[1] + 2, 4 * s[2] + 2, 4 * s[3] + 2, s[4] + 1, 2 * s[5] + 1, 0>>
   IN  /\ LatDecided(c, s[1])
       /\ PointToVoxel(c, s[1], s[4], TRUE) = s
       /\ <<c[1] - 1, c[2] \div 2>> = CentreU(s) /\ <<c[4], c[5]>> = CentreA(s)
C02_SharedFaces == IsOp("Geom") =>
   LET s == last.a  vs == last.res
       E == Vertices(<<s[1], s[2] + 1, s[3], s[4], s[5]>>)
       S == Vertices(<<s[1], s[2], s[3] + 1, s[4], s[5]>>)
       U == Vertices(<<s[1], s[2], s[3], s[4], s[5] + 1>>)
   IN  /\ <<vs[2], vs[3], vs[6], vs[7]>> = <<E[1], E[4], E[5], E[8]>>
       /\ <<vs[4], vs[3], vs[8], vs[7]>> = <<S[1], S[2], S[5], S[6]>>
       /\ <<vs[5], vs[6], vs[7], vs[8]>> = <<U[1], U[2], U[3], U[4]>>
C02_Tiling == IsOp("Geom") =>
   \A c \in Region(last.a) :
      Cardinality({t \in VoxAt(last.a[1], last.a[4]) : InRegion(c, t)}) = 1

\* C10
C10_Expand == IsOp("Notation") =>
   /\ last.res = {ExtToSp(t) : t \in ExpandDef(last.a)}
   /\ Cardinality(last.res) = ExpandCount(last.a)
   /\ \A t \in last.res : t[1] = MaxOf(last.a[1], last.a[4])
   /\ RegionOf({SpToExt(t) : t \in last.res}) = Region(last.a)
C10_RoundTrip == IsOp("Notation") =>
   /\ (last.a[1] = last.a[4] => SpToExt(ExtToSp(last.a)) = last.a)
   /\ \A t \in last.res : ExtToSp(SpToExt(t)) = t

\* action properties over two consecutive steps
C04_SecondMergeStutters ==
  [][(last.op = "Merge" /\ last'.op = "Merge" /\ last'.a = last.a) => ws' = ws]_vars
C07_Compose ==
  [][(last.op = "Shift" /\ last'.op = "Shift") =>
       ws' = {Shift(s, last.a[1] + last'.a[1], last.a[2] + last'.a[2],
                       last.a[3] + last'.a[3], TRUE) : s \in last.pre}]_vars
C07_ZeroIsIdentity ==
  [][(last'.op = "Shift" /\ last'.a = <<0, 0, 0>>) => ws' = ws]_vars
=============================================================================
