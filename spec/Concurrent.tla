------------------------------ MODULE Concurrent ------------------------------
(***************************************************************************)
(* C19: the library keeps no mutable shared state.  N processes each make  *)
(* one call on shared read-only arguments.  A call is not atomic: it passes *)
(* through its hook points (the places where the implementation builds a   *)
(* slice from a map: `Inside` steps) before it returns.  The specification *)
(* has NO shared variable besides the read-only argument pool, so the      *)
(* result of every call is the sequential result whatever the interleaving.*)
(*                                                                         *)
(* SharedScratch = TRUE is the deviation "a package-level scratch buffer   *)
(* written inside the call and read at return": TLC then finds the         *)
(* interleaving that breaks the invariant (non-vacuity), and the same      *)
(* schedules, replayed on real goroutines through the blocking verif hook, *)
(* would expose such a change in the code.                                 *)
(***************************************************************************)
EXTENDS Integers, Sequences, FiniteSets, TLC, Json

CONSTANTS Procs,          \* e.g. {1, 2}
          Gates,          \* number of hook points a call passes (Inside steps)
          SharedScratch   \* FALSE = the specification; TRUE = the deviation

VARIABLES pc,       \* pc[p] \in 0..Gates+1 : 0 = not called yet, k = at gate k, Gates+1 = returned
          arg,      \* arg[p]: the (read-only) argument of p's call
          res,      \* res[p]: the value returned
          scratch,  \* only used by the deviation
          sched     \* history: the order in which processes took steps
vars == <<pc, arg, res, scratch, sched>>

Args == {10, 20, 30}
SpecFn(a) == a + 1                 \* stands for "the sequential result of the call"

Init == /\ pc = [p \in Procs |-> 0]
        /\ arg \in [Procs -> Args]
        /\ res = [p \in Procs |-> -1]
        /\ scratch = 0
        /\ sched = <<>>

Step(p) ==
  /\ pc[p] <= Gates
  /\ pc' = [pc EXCEPT ![p] = @ + 1]
  /\ sched' = Append(sched, p)
  /\ arg' = arg
  /\ IF pc[p] = 0                                  \* Call .. first gate: compute into scratch (deviation)
     THEN /\ scratch' = IF SharedScratch THEN SpecFn(arg[p]) ELSE scratch
          /\ res' = res
     ELSE IF pc[p] = Gates                         \* last gate .. Return
     THEN /\ res' = [res EXCEPT ![p] = IF SharedScratch THEN scratch ELSE SpecFn(arg[p])]
          /\ scratch' = scratch
     ELSE UNCHANGED <<res, scratch>>

Next == \E p \in Procs : Step(p)
Spec == Init /\ [][Next]_vars

Done(p) == pc[p] = Gates + 1
ResultIndependentOfSchedule == \A p \in Procs : Done(p) => res[p] = SpecFn(arg[p])
ArgumentsReadOnly == [][arg' = arg]_vars

\* generator: one line per complete schedule (all processes returned), same arguments only once
EmitSchedule == ((\A p \in Procs : Done(p)) /\ \A p \in Procs : arg[p] = 10) =>
   PrintT(ToJson([op |-> "G.Sched", absonly |-> TRUE, depth |-> 0, a |-> [sched |-> sched, procs |-> Cardinality(Procs)]]))
=============================================================================
