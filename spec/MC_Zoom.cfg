SPECIFICATION Spec
CONSTANTS
  M = 2
  InitSets <- InitPairs
  Points <- NoPoints
  ShiftOffsets <- NoShifts
  MaxLayers = 0
  Ops = {"ChangeZoom"}
  MaxDepth = 1
  MaxWs = 1000
INVARIANTS C03_Exact C03_ListIsUnion C03_AtTarget C03_Partition C03_FloorBelowGround C09_InThenOut C09_MergeDescendants
CHECK_DEADLOCK FALSE
