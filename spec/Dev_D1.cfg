SPECIFICATION Spec
CONSTANTS M = 2
INVARIANTS D1_Agrees
CHECK_DEADLOCK FALSE
