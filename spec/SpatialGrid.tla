----------------------------- MODULE SpatialGrid -----------------------------
(***************************************************************************)
(* The dyadic voxel grid of spatial IDs and the library's operations on    *)
(* it, written the way the implementation computes them (multiply, floor-  *)
(* divide, cross product, group-and-count).  The definitional layer        *)
(* (regions as sets of unit cells) lives in GridDef.tla; MC_Grid checks    *)
(* that the two layers agree.                                              *)
(*                                                                         *)
(* An extended ID  h/x/y/v/f  is the tuple <<h, x, y, v, f>>.              *)
(* A spatial ID    z/f/x/y    is the tuple <<z, f, x, y>>.                 *)
(* A lattice point is <<k, U, W, ka, A, lim>>: longitude fraction U/2^k,   *)
(* Mercator row fraction W/2^k, altitude A * 2^(25-ka) metres; lim = 1 /   *)
(* -1 marks the northern / southern latitude limit (W ignored).  A lattice *)
(* point is the north-west-bottom corner of the voxel <<k,U,W,ka,A>>.      *)
(*                                                                         *)
(* Coordinates are either absolute (abs = TRUE: the real grid, indices     *)
(* wrap modulo 2^h) or window-projected (abs = FALSE: relative to a        *)
(* sub-cube of the real grid, horizontal wrap is invisible because         *)
(* projection takes centred residues).  See DESIGN.md 1.3.                 *)
(***************************************************************************)
EXTENDS Dyadic

IdH(s) == s[1]
IdX(s) == s[2]
IdY(s) == s[3]
IdV(s) == s[4]
IdF(s) == s[5]

MkId(h, x, y, v, f) == <<h, x, y, v, f>>

\* ---- notation (C10) ----------------------------------------------------
SpToExt(t) == <<t[1], t[3], t[4], t[1], t[2]>>          \* z/f/x/y -> z/x/y/z/f
ExtToSp(s) == <<s[1], s[5], s[2], s[3]>>                \* h/x/y/v/f -> h/f/x/y (h = v)

\* ---- validity ----------------------------------------------------------
ValidAbsId(s) == /\ 0 <= s[1] /\ 0 <= s[4]
                 /\ 0 <= s[2] /\ s[2] < Pow2(s[1])
                 /\ 0 <= s[3] /\ s[3] < Pow2(s[1])
                 /\ -Pow2(s[4]) <= s[5] /\ s[5] < Pow2(s[4])

\* ---- per-axis zoom (C03) -- mirrors integrate.HorizontalZoomMinMax etc. --
\* result <<minX, minY, maxX, maxY>>
HorizontalZoomMinMax(zi, x, y, zo) ==
  IF zo > zi THEN LET n == Pow2(zo - zi) IN <<x * n, y * n, x * n + n - 1, y * n + n - 1>>
  ELSE IF zo < zi THEN LET d == zi - zo IN
         <<FloorDivPow2(x, d), FloorDivPow2(y, d), FloorDivPow2(x, d), FloorDivPow2(y, d)>>
  ELSE <<x, y, x, y>>

\* set of horizontal components <<zo, x, y>>
HorizontalZoomSet(zi, x, y, zo) ==
  LET mm == HorizontalZoomMinMax(zi, x, y, zo)
  IN  {<<zo, xx, yy>> : xx \in mm[1]..mm[3], yy \in mm[2]..mm[4]}

\* the library's documented order: y outer, x inner (row-major)
HorizontalZoomSeq(zi, x, y, zo) ==
  LET mm == HorizontalZoomMinMax(zi, x, y, zo)
      nx == mm[3] - mm[1] + 1
      ny == mm[4] - mm[2] + 1
  IN  [i \in 1..(nx * ny) |-> <<zo, mm[1] + ((i - 1) % nx), mm[2] + ((i - 1) \div nx)>>]

\* <<min, max>> of the vertical index; floor semantics below ground
VerticalZoomMinMax(zi, f, zo) ==
  IF zo > zi THEN LET n == Pow2(zo - zi) IN <<f * n, f * n + n - 1>>
  ELSE IF zo < zi THEN LET a == FloorDivPow2(f, zi - zo) IN <<a, a>>
  ELSE <<f, f>>

VerticalZoomSet(zi, f, zo) ==
  LET mm == VerticalZoomMinMax(zi, f, zo) IN {<<zo, ff>> : ff \in mm[1]..mm[2]}

VerticalZoomSeq(zi, f, zo) ==
  LET mm == VerticalZoomMinMax(zi, f, zo)
  IN  [i \in 1..(mm[2] - mm[1] + 1) |-> <<zo, mm[1] + i - 1>>]

\* ---- zoom change of ID sets (C03) --------------------------------------
ChangeZoomOne(s, h, v) ==
  {<<a[1], a[2], a[3], b[1], b[2]>> :
      a \in HorizontalZoomSet(s[1], s[2], s[3], h), b \in VerticalZoomSet(s[4], s[5], v)}

ChangeZoom(S, h, v) == UNION {ChangeZoomOne(s, h, v) : s \in S}

\* how many voxels the refinement of one voxel to (h, v) has (no enumeration)
ZoomCountOne(s, h, v) == Pow2(2 * MaxOf(0, h - s[1])) * Pow2(MaxOf(0, v - s[4]))

\* the floor ancestor of s at coarser-or-equal zooms (h <= s.h, v <= s.v)
Ancestor(s, h, v) ==
  <<h, FloorDivPow2(s[2], s[1] - h), FloorDivPow2(s[3], s[1] - h),
    v, FloorDivPow2(s[5], s[4] - v)>>

\* mirrors object.ExtendedSpatialID.Higher
Higher(s, dh, dv) == Ancestor(s, s[1] - dh, s[4] - dv)

\* ---- expansion of an extended ID to single-zoom spatial IDs (C10) -------
\* mirrors transform.ConvertExtendedSpatialIDToSpatialIDs: raise the coarser axis
ExpandImpl(s) == LET m == MaxOf(s[1], s[4])
                 IN  {ExtToSp(t) : t \in ChangeZoomOne(s, m, m)}
ExpandCount(s) == IF s[1] < s[4] THEN Pow2(2 * (s[4] - s[1])) ELSE Pow2(s[1] - s[4])

\* ---- merge (C04) -- mirrors integrate.MergeExtendedSpatialIds ----------
Eligible(s, h, v) == s[1] >= h /\ s[4] >= v

MergeImpl(S, h, v) ==
  LET E  == {s \in S : Eligible(s, h, v)}
      N  == S \ E
      mh == IF S = {} THEN 0 ELSE SetMax({s[1] : s \in S} \cup {0})
      mv == IF S = {} THEN 0 ELSE SetMax({s[4] : s \in S} \cup {0})
      Anc(s)    == Ancestor(s, h, v)
      Groups    == {Anc(s) : s \in E}
      Units(g)  == UNION {ChangeZoomOne(s, mh, mv) : s \in {t \in E : Anc(t) = g}}
      Dense(g)  == Cardinality(Units(g)) = Pow2(2 * (mh - h)) * Pow2(mv - v)
  IN  N \cup {g \in Groups : Dense(g)} \cup {s \in E : ~Dense(Anc(s))}

\* the exported building blocks of the merge, one step each (mirrors
\* NewUnitDividedSpatialID, NewHighSpatialID, HighSpatialID.Merge, IsDense):
\* every eligible input is cut into unit voxels at (mh, mv), filed under its
\* ancestor at (h, v), groups with the same ancestor pool their unit voxels,
\* and a group is dense when the pool has as many voxels as the ancestor holds.
MergeSteps(E, h, v, mh, mv) ==
  LET Units(g) == UNION {ChangeZoomOne(s, mh, mv) : s \in {t \in E : Ancestor(t, h, v) = g}}
  IN  {<<g, Cardinality(Units(g)) = Pow2(2 * (mh - h)) * Pow2(mv - v)>> : g \in {Ancestor(s, h, v) : s \in E}}

\* ---- overlap (C05) -- mirrors detector.CheckExtendedSpatialIdsOverlap ---
OverlapImpl(a, b) ==
  LET th == MinOf(a[1], b[1])
      tv == MinOf(a[4], b[4])
  IN  Ancestor(a, th, tv) = Ancestor(b, th, tv)

OverlapArr(A, B) == \E a \in A, b \in B : OverlapImpl(a, b)

\* domain of the radix-tree (single-zoom) checks: the voxel's altitude
\* interval lies inside the documented +-2^24 m, i.e. half the index range
InTreeDomain(t) == t[1] >= 1 /\ -Pow2(t[1] - 1) <= t[2] /\ t[2] < Pow2(t[1] - 1)

\* ---- point lookup (C01) ------------------------------------------------
WrapX(x, h, abs) == IF abs THEN x % Pow2(h) ELSE x

\* floor(n * 2^h / 2^k) without overflow for either order of h and k
ScaleFloor(n, h, k) == IF h >= k THEN n * Pow2(h - k) ELSE FloorDivPow2(n, k - h)

PointX(p, h, abs) == WrapX(ScaleFloor(p[2], h, p[1]), h, abs)
PointY(p, h) == IF p[6] = 1 THEN 0
                ELSE IF p[6] = -1 THEN Pow2(h) - 1
                ELSE ScaleFloor(p[3], h, p[1])
PointF(p, v) == ScaleFloor(p[5], v, p[4])

PointToVoxel(p, h, v, abs) == <<h, PointX(p, h, abs), PointY(p, h), v, PointF(p, v)>>

\* the row of a lattice point is decided by the model only when the point is
\* strictly inside a row, at least a quarter row from either boundary
\* (DESIGN.md 1.4); the latitude limits are decided by their own rule.
LatDecided(p, h) ==
  \/ p[6] # 0
  \/ /\ p[1] >= h + 2
     /\ LET m == Pow2(p[1] - h)
            r == p[3] % m
        IN  4 * r >= m /\ 4 * r <= 3 * m

\* ---- voxel geometry (C02) ----------------------------------------------
\* the eight corners in the documented order: NW, NE, SE, SW bottom, then top
\* (north = smaller row index).  Corners are lattice points of depth (h, v).
Vertices(s) ==
  LET h == s[1] x == s[2] y == s[3] v == s[4] f == s[5]
      P(uu, ww, aa) == <<h, uu, ww, v, aa, 0>>
  IN  << P(x, y, f),     P(x + 1, y, f),     P(x + 1, y + 1, f),     P(x, y + 1, f),
         P(x, y, f + 1), P(x + 1, y, f + 1), P(x + 1, y + 1, f + 1), P(x, y + 1, f + 1) >>

\* centre: exact in longitude and altitude (depth + 1); its row is y
CentreU(s) == <<s[1] + 1, 2 * s[2] + 1>>
CentreA(s) == <<s[4] + 1, 2 * s[5] + 1>>
=============================================================================
