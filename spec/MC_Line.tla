------------------------------- MODULE MC_Line -------------------------------
(***************************************************************************)
(* Design-level check of the walk abstraction of Line.tla in a toy linear  *)
(* geometry where everything is exact: points have coordinates in units of *)
(* 1/2 voxel inside a small block; crossing times are rationals compared   *)
(* by cross-multiplication; simultaneous crossings are one move.           *)
(* Theorems (invariants over all segments):                                *)
(*   - the walk ends in the end point's voxel;                             *)
(*   - Touched(walk) contains every voxel whose interior the segment       *)
(*     meets, and only voxels whose closed box the segment meets;          *)
(*   - consecutive walk positions are 26-adjacent and the touched set is   *)
(*     connected (so the code's result can be a connected chain inside it) *)
(***************************************************************************)
EXTENDS Line, SequencesExt, TLC

CONSTANTS NX, NY, NF        \* block size in voxels

VARIABLE seg                \* the segment under consideration <<P0, P1>> in half-voxel units
vars == <<seg>>

HalfPts == {<<x, y, f>> : x \in 0..(2 * NX), y \in 0..(2 * NY), f \in 0..(2 * NF)}
\* points strictly inside voxels or on faces; voxel of a point = floor(c / 2) (clamped at the far edge)
VoxOf(p) == <<MinOf(p[1] \div 2, NX - 1), MinOf(p[2] \div 2, NY - 1), MinOf(p[3] \div 2, NF - 1)>>

Init == seg \in {<<a, b>> : a \in HalfPts, b \in HalfPts}
Next == UNCHANGED seg
Spec == Init /\ [][Next]_vars

P0 == seg[1]
P1 == seg[2]
D(i) == P1[i] - P0[i]

\* crossings: for axis i, every voxel boundary (even coordinate 2b) strictly between the
\* end voxels' indices is crossed at t = (2b - P0[i]) / D(i)
Crossings ==
  UNION {{[axis |-> i, step |-> (IF D(i) > 0 THEN 1 ELSE -1),
           num |-> (2 * b - P0[i]) * (IF D(i) > 0 THEN 1 ELSE -1), den |-> Abs(D(i)), b |-> b] :
            b \in (IF VoxOf(P1)[i] > VoxOf(P0)[i] THEN (VoxOf(P0)[i] + 1)..VoxOf(P1)[i]
                   ELSE IF VoxOf(P1)[i] < VoxOf(P0)[i] THEN (VoxOf(P1)[i] + 1)..VoxOf(P0)[i] ELSE {})}
         : i \in 1..3}
Before(a, b) == a.num * b.den < b.num * a.den
SameTime(a, b) == a.num * b.den = b.num * a.den
Times == {c \in Crossings : \A d \in Crossings : ~(SameTime(c, d) /\ (d.axis < c.axis \/ (d.axis = c.axis /\ d.b < c.b)))}
OrderedTimes == SetToSortSeq(Times, Before)
MoveAt(c) == [i \in 1..3 |->
   LET S == {d \in Crossings : SameTime(c, d) /\ d.axis = i} IN
   IF S = {} THEN 0 ELSE Cardinality(S) * (CHOOSE d \in S : TRUE).step]
Moves == [k \in 1..Len(OrderedTimes) |-> MoveAt(OrderedTimes[k])]

Rel(v) == <<v[1] - VoxOf(P0)[1], v[2] - VoxOf(P0)[2], v[3] - VoxOf(P0)[3]>>

\* closed box of voxel v (half units [2v, 2v+2]) meets the segment: Liang-Barsky on integers
AllVox == {<<x, y, f>> : x \in 0..(NX - 1), y \in 0..(NY - 1), f \in 0..(NF - 1)}
\* t in [lo, hi] as rationals <<num, den>> with den > 0
RLeq(a, b) == a[1] * b[2] <= b[1] * a[2]
RLt(a, b) == a[1] * b[2] < b[1] * a[2]
AxisInterval(v, i, open) ==   \* <<lower, upper, feasible>>
  LET lo == 2 * v[i]  hi == 2 * v[i] + 2  d == D(i)  p == P0[i] IN
  IF d = 0 THEN <<<<0, 1>>, <<1, 1>>, IF open THEN lo < p /\ p < hi ELSE lo <= p /\ p <= hi>>
  ELSE IF d > 0 THEN <<<<lo - p, d>>, <<hi - p, d>>, TRUE>>
  ELSE <<<<p - hi, -d>>, <<p - lo, -d>>, TRUE>>
RMax(S) == CHOOSE a \in S : \A b \in S : RLeq(b, a)
RMin(S) == CHOOSE a \in S : \A b \in S : RLeq(a, b)
Meets(v, open) ==
  LET iv == [i \in 1..3 |-> AxisInterval(v, i, open)]
      lo == RMax({iv[1][1], iv[2][1], iv[3][1], <<0, 1>>})
      hi == RMin({iv[1][2], iv[2][2], iv[3][2], <<1, 1>>})
  IN  /\ iv[1][3] /\ iv[2][3] /\ iv[3][3]
      /\ IF open THEN RLt(lo, hi) ELSE RLeq(lo, hi)

WalkEndsAtEnd == WalkEnd(Moves) = Rel(VoxOf(P1))
TouchedBounds ==
  LET T == Touched(Moves) IN
  /\ \A v \in AllVox : Meets(v, TRUE) => Rel(v) \in T          \* every voxel the segment runs through
  /\ \A t \in T : \E v \in AllVox : Rel(v) = t /\ Meets(v, FALSE)  \* only voxels it at least touches
TouchedConnected ==
  LET T == Touched(Moves) IN Reachable(T, <<0, 0, 0>>) = T
TouchedAcceptsItself ==
  LineAccept(SetToSeq(Touched(Moves)), Moves, Rel(VoxOf(P1)))
=============================================================================
