SPECIFICATION Spec
CONSTANTS
  M = 2
  InitSets <- InitSub
  Points <- NoPoints
  ShiftOffsets <- NoShifts
  MaxLayers = 0
  Ops = {"Overlap"}
  MaxDepth = 1
  MaxWs = 1000
INVARIANTS Emit

CHECK_DEADLOCK FALSE
