-------------------------------- MODULE Trace --------------------------------
(***************************************************************************)
(* Trace validation: every line of the NDJSON file named by the            *)
(* environment variable TRACE_FILE is one call of the real library,        *)
(* recorded by the Go harness in model coordinates (DESIGN.md 1.3, 3c).    *)
(* A line is *explained* when the specification's operator for that call,  *)
(* applied to the logged arguments, yields the logged outcome and result.  *)
(* An unexplained line is reported ("REJECT") and the run continues, so    *)
(* one defect does not hide the rest of the trace.                         *)
(***************************************************************************)
EXTENDS TraceOps, Json, IOUtils, TLC

Trace == ndJsonDeserialize(IOEnv.TRACE_FILE)

VARIABLES l,        \* next line to consume
          ws        \* the machine's working set (history events "M.*")
tvars == <<l, ws>>

TraceInit == l = 1 /\ ws = {}

Reject(e) == PrintT(<<"REJECT", l, e.op, ToJson(Expected(e))>>)
\* a line the specification rejects but a named, recorded deviation explains
Known(e, d) == PrintT(<<"KNOWN", l, e.op, d>>)

TraceNext ==
  /\ l <= Len(Trace)
  /\ l' = l + 1
  /\ LET e == Trace[l] IN
       IF IsMachineOp(e)
       THEN /\ ws' = MachineLogged(e)          \* resynchronise on the logged state
            /\ IF MachineExplains(e, ws) THEN TRUE
               ELSE PrintT(<<"REJECT", l, e.op, ToJson(MachineNext(e, ws))>>)
       ELSE /\ ws' = ws
            /\ IF Explains(e) THEN TRUE
               ELSE IF KnownDeviation(e) # "" THEN Known(e, KnownDeviation(e))
               ELSE Reject(e)

TraceSpec == TraceInit /\ [][TraceNext]_tvars

Done == (l = Len(Trace) + 1) => PrintT(<<"DONE", l - 1>>)
=============================================================================
