SPECIFICATION Spec
CONSTANTS Procs = {1, 2, 3}
          Gates = 2
          SharedScratch = FALSE
INVARIANTS ResultIndependentOfSchedule
PROPERTIES ArgumentsReadOnly
CHECK_DEADLOCK FALSE
