------------------------------- MODULE MC_Keys -------------------------------
(***************************************************************************)
(* Exhaustive small-scope machine for Keys.tla: one action per conversion, *)
(* `last` records the step; invariants are the C11 / C12 / C17 statements. *)
(***************************************************************************)
EXTENDS Keys, TLC, Json

VARIABLES last
vars == <<last>>

QZ == 0..3                                       \* quadkey zooms of the small model
SmallE == {23, 25, 27}
Offsets == {-9, -8, -3, -1, 0, 1, 2, 5, 8}

Init == last = [op |-> "Init"]

Quad(z, x, y) == last' = [op |-> "Quad", z |-> z, x |-> x, y |-> y]
HZoom(z, x, y, zo) == last' = [op |-> "HZoom", z |-> z, x |-> x, y |-> y, zo |-> zo]
ZToKey(f, zi, zo, E, O) == last' = [op |-> "ZToKey", f |-> f, zi |-> zi, zo |-> zo, E |-> E, O |-> O]
KeyToZ(k, kz, zo, E, O) == last' = [op |-> "KeyToZ", k |-> k, kz |-> kz, zo |-> zo, E |-> E, O |-> O]
Cell(a, z, mn, mx) == last' = [op |-> "Cell", a |-> a, z |-> z, mn |-> mn, mx |-> mx]
Tree(a, b) == last' = [op |-> "Tree", a |-> a, b |-> b]
\* spatial IDs of zooms 1..3 inside the tree domain, x and y in one quadrant column
TreeIds == {<<z, f, x, y>> : z \in 1..3, f \in -4..3, x \in 0..7, y \in 0..1} 
TreeDom == {t \in TreeIds : InTreeDomain(t) /\ t[3] < Pow2(t[1]) /\ t[4] < Pow2(t[1])}

Next == /\ last.op = "Init"
        /\ \/ \E z \in QZ, x \in 0..7, y \in 0..7 : x < Pow2(z) /\ y < Pow2(z) /\ Quad(z, x, y)
           \/ \E z \in QZ, x \in 0..7, y \in 0..7, zo \in QZ : x < Pow2(z) /\ y < Pow2(z) /\ HZoom(z, x, y, zo)
           \/ \E f \in -6..6, zi \in 22..28, d \in -3..3, E \in SmallE, O \in Offsets : ZToKey(f, zi, E + d, E, O)
           \/ \E k \in 0..9, d1 \in -3..3, zo \in 22..28, E \in SmallE, O \in Offsets : KeyToZ(k, E + d1, zo, E, O)
           \/ \E a \in TreeDom, b \in TreeDom : Tree(a, b)
           \/ \E a \in -3..14, z \in 0..4, mn \in {-2, 0, 3}, span \in {4, 6, 10, 16} : Cell(a, z, mn, mn + span)

Spec == Init /\ [][Next]_vars

\* C11: interleaving is a bijection, agrees with the arithmetic form, key < 4^z
K11_Interleave == last.op = "Quad" =>
   LET xb == BitsOf(last.x, last.z)  yb == BitsOf(last.y, last.z)  d == QuadOfBits(xb, yb) IN
   /\ d = QuadDigits(last.x, last.y, last.z)
   /\ XBitsOfQuad(d) = xb /\ YBitsOfQuad(d) = yb
   /\ ValueOf(xb) = last.x /\ ValueOf(yb) = last.y
   /\ XOfDigits(d) = last.x /\ YOfDigits(d) = last.y
   /\ DigitsValue(d, 4) < Pow2(2 * last.z) /\ IsQuad(d)
\* the bit-sequence zoom change is the arithmetic zoom change of C03
K11_ZoomAgrees == last.op = "HZoom" =>
   {<<last.zo, ValueOf(t[1]), ValueOf(t[2])>> :
        t \in HorizontalZoomBits(BitsOf(last.x, last.z), BitsOf(last.y, last.z), last.zo)}
     = HorizontalZoomSet(last.z, last.x, last.y, last.zo)

\* C12: the band is well-formed; exact where every cell is >= 1 m; the two
\* directions are mutually consistent there; the key->Z implementation shape is
\* inside the band
K12_BandZK == last.op = "ZToKey" =>
   LET f == last.f zi == last.zi zo == last.zo E == last.E O == last.O IN
   /\ ZK_WMin(f, zi, zo, E, O) <= ZK_XMin(f, zi, zo, E, O)
   /\ ZK_XMin(f, zi, zo, E, O) <= ZK_XMax(f, zi, zo, E, O)
   /\ ZK_XMax(f, zi, zo, E, O) <= ZK_WMax(f, zi, zo, E, O)
   /\ ExactRegimeZK(zi, zo, E) =>
        /\ ZK_WMin(f, zi, zo, E, O) = ZK_XMin(f, zi, zo, E, O)
        /\ ZK_WMax(f, zi, zo, E, O) = ZK_XMax(f, zi, zo, E, O)
K12_Consistent == last.op = "ZToKey" =>
   LET f == last.f zi == last.zi zo == last.zo E == last.E O == last.O IN
   (ExactRegimeZK(zi, zo, E) /\ ExactRegimeKZ(zo, zi, E)) =>
      \A k \in ZK_XMin(f, zi, zo, E, O)..ZK_XMax(f, zi, zo, E, O) :
          KZ_XMin(k, zo, zi, E, O) <= f /\ f <= KZ_XMax(k, zo, zi, E, O)
K12_ImplKeyToZInBand == last.op = "KeyToZ" =>
   LET k == last.k kz == last.kz zo == last.zo E == last.E O == last.O
       r == ImplKeyToZ(k, kz, zo, E, O) IN
   (KeyValid(k, kz) /\ r[1] >= -Pow2Sat(zo) /\ r[2] < Pow2Sat(zo)) =>
       KZ_Accept(k, kz, zo, E, O, FALSE, r[1], r[2])

\* C05: the radix-tree relation is the ancestor-or-equal relation on both axes
K05_TreeIsOverlap == last.op = "Tree" =>
   /\ TreeOverlap({last.a}, {last.b}) = OverlapImpl(SpToExt(last.a), SpToExt(last.b))
   /\ TreeOverlap({last.a}, {last.b}) = TreeOverlap({last.b}, {last.a})
   /\ TreeOverlap({last.a}, {last.a})

\* C17: the closed formula is the repeated halving the code performs
K17_CellIsHalving == last.op = "Cell" =>
   BitCell(last.a, last.z, last.mn, last.mx) = CalcBitIndex(last.a, last.z, last.mn, last.mx)
K17_ByHeight == (last.op = "Cell" /\ (last.mx - last.mn) % Pow2(last.z) = 0) =>
      BitCellByHeight(last.a, last.z, last.mn, (last.mx - last.mn) \div Pow2(last.z)) = BitCell(last.a, last.z, last.mn, last.mx)
K17_InRange == last.op = "Cell" =>
   LET c == BitCell(last.a, last.z, last.mn, last.mx) IN 0 <= c /\ c <= Pow2(last.z) - 1

\* generator: one JSON line per explored step (replayed on the real code)
GenStep ==
  CASE last.op = "Quad"   -> [op |-> "G.Quad", absonly |-> FALSE, depth |-> last.z,
                              a |-> [z |-> last.z, x |-> last.x, y |-> last.y]]
    [] last.op = "HZoom"  -> [op |-> "G.HZoom", absonly |-> FALSE, depth |-> last.z,
                              a |-> [z |-> last.z, x |-> last.x, y |-> last.y, zo |-> last.zo]]
    [] last.op = "ZToKey" -> [op |-> "ZToKey", absonly |-> TRUE, depth |-> 0,
                              a |-> [f |-> last.f, zi |-> last.zi, zo |-> last.zo, E |-> last.E, O |-> last.O]]
    [] last.op = "KeyToZ" -> [op |-> "KeyToZ", absonly |-> TRUE, depth |-> 0,
                              a |-> [k |-> last.k, kz |-> last.kz, zo |-> last.zo, E |-> last.E, O |-> last.O]]
    [] OTHER -> [op |-> "none", absonly |-> TRUE, depth |-> 0, a |-> <<>>]
Emit == (last.op \in {"Quad", "HZoom", "ZToKey", "KeyToZ"}) => PrintT(ToJson(GenStep))
=============================================================================
