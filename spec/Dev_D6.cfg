SPECIFICATION Spec
CONSTANTS M = 2
INVARIANTS D6_Agrees
CHECK_DEADLOCK FALSE
