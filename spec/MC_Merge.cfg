SPECIFICATION Spec
CONSTANTS
  M = 2
  InitSets <- InitMerge
  Points <- NoPoints
  ShiftOffsets <- NoShifts
  MaxLayers = 0
  Ops = {"Merge"}
  MaxDepth = 1
  MaxWs = 1000
INVARIANTS C04_StepsAssemble C04_RegionPreserved C04_Exact C04_Idempotent C04_MirrorSymmetric

CHECK_DEADLOCK FALSE
