---- MODULE MC_Determ_TTrace_1790562197 ----
EXTENDS Sequences, TLCExt, MC_Determ, Toolbox, Naturals, TLC

_expression ==
    LET MC_Determ_TEExpression == INSTANCE MC_Determ_TEExpression
    IN MC_Determ_TEExpression!expression
----

_trace ==
    LET MC_Determ_TETrace == INSTANCE MC_Determ_TETrace
    IN MC_Determ_TETrace!trace
----

_inv ==
    ~(
        TLCGet("level") = Len(_TETrace)
        /\
        op = ("Corridor")
        /\
        res = ({1, 2})
        /\
        perm = (<<1, 2>>)
        /\
        inp = (<<1, 2>>)
    )
----

_init ==
    /\ op = _TETrace[1].op
    /\ res = _TETrace[1].res
    /\ inp = _TETrace[1].inp
    /\ perm = _TETrace[1].perm
----

_next ==
    /\ \E i,j \in DOMAIN _TETrace:
        /\ \/ /\ j = i + 1
              /\ i = TLCGet("level")
        /\ op  = _TETrace[i].op
        /\ op' = _TETrace[j].op
        /\ res  = _TETrace[i].res
        /\ res' = _TETrace[j].res
        /\ inp  = _TETrace[i].inp
        /\ inp' = _TETrace[j].inp
        /\ perm  = _TETrace[i].perm
        /\ perm' = _TETrace[j].perm

\* Uncomment the ASSUME below to write the states of the error trace
\* to the given file in Json format. Note that you can pass any tuple
\* to `JsonSerialize`. For example, a sub-sequence of _TETrace.
    \* ASSUME
    \*     LET J == INSTANCE Json
    \*         IN J!JsonSerialize("MC_Determ_TTrace_1790562197.json", _TETrace)

=============================================================================

 Note that you can extract this module `MC_Determ_TEExpression`
  to a dedicated file to reuse `expression` (the module in the 
  dedicated `MC_Determ_TEExpression.tla` file takes precedence 
  over the module `MC_Determ_TEExpression` below).

---- MODULE MC_Determ_TEExpression ----
EXTENDS Sequences, TLCExt, MC_Determ, Toolbox, Naturals, TLC

expression == 
    [
        \* To hide variables of the `MC_Determ` spec from the error trace,
        \* remove the variables below.  The trace will be written in the order
        \* of the fields of this record.
        op |-> op
        ,res |-> res
        ,inp |-> inp
        ,perm |-> perm
        
        \* Put additional constant-, state-, and action-level expressions here:
        \* ,_stateNumber |-> _TEPosition
        \* ,_opUnchanged |-> op = op'
        
        \* Format the `op` variable as Json value.
        \* ,_opJson |->
        \*     LET J == INSTANCE Json
        \*     IN J!ToJson(op)
        
        \* Lastly, you may build expressions over arbitrary sets of states by
        \* leveraging the _TETrace operator.  For example, this is how to
        \* count the number of times a spec variable changed up to the current
        \* state in the trace.
        \* ,_opModCount |->
        \*     LET F[s \in DOMAIN _TETrace] ==
        \*         IF s = 1 THEN 0
        \*         ELSE IF _TETrace[s].op # _TETrace[s-1].op
        \*             THEN 1 + F[s-1] ELSE F[s-1]
        \*     IN F[_TEPosition - 1]
    ]

=============================================================================



Parsing and semantic processing can take forever if the trace below is long.
 In this case, it is advised to uncomment the module below to deserialize the
 trace from a generated binary file.

\*
\*---- MODULE MC_Determ_TETrace ----
\*EXTENDS IOUtils, MC_Determ, TLC
\*
\*trace == IODeserialize("MC_Determ_TTrace_1790562197.bin", TRUE)
\*
\*=============================================================================
\*

---- MODULE MC_Determ_TETrace ----
EXTENDS MC_Determ, TLC

trace == 
    <<
    ([op |-> "none",res |-> {},perm |-> <<1, 2>>,inp |-> <<1, 2>>]),
    ([op |-> "Corridor",res |-> {1, 2},perm |-> <<1, 2>>,inp |-> <<1, 2>>])
    >>
----


=============================================================================

---- CONFIG MC_Determ_TTrace_1790562197 ----
CONSTANTS
    Vox = { 1 , 2 , 3 }
    UseFirstOfMap = TRUE

INVARIANT
    _inv

CHECK_DEADLOCK
    \* CHECK_DEADLOCK off because of PROPERTY or INVARIANT above.
    FALSE

INIT
    _init

NEXT
    _next

CONSTANT
    _TETrace <- _trace

ALIAS
    _expression
=============================================================================
\* Generated on Mon Sep 28 02:23:19 UTC 2026