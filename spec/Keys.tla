--------------------------------- MODULE Keys ---------------------------------
(***************************************************************************)
(* Quadkeys, altitude keys, 3-D tile keys and binary-subdivision altitude  *)
(* IDs (C11, C12, C13, C17); mirrors transform/convert_quadkey_and_*.      *)
(*                                                                         *)
(* Horizontal indices reach 2^31 at quadkey zoom 31, beyond TLC's          *)
(* integers, so in this module a horizontal tile is a pair of BIT          *)
(* SEQUENCES (most significant first, length = zoom): the quadtree in its  *)
(* purest form.  Zoom-out is taking a prefix, zoom-in is appending every   *)
(* suffix, and a quadkey is the digit-wise interleaving.  MC_Keys checks   *)
(* that this agrees with the arithmetic of SpatialGrid at small scope.     *)
(***************************************************************************)
EXTENDS SpatialGrid

\* ---- bit sequences ---------------------------------------------------------
BitsOf(n, len) == [i \in 1..len |-> Bit(n, len - i)]
ValueOf(b) == DigitsValue(b, 2)
IsBits(b) == \A i \in 1..Len(b) : b[i] \in {0, 1}
RECURSIVE AllBits(_)
AllBits(n) == IF n = 0 THEN {<<>>} ELSE {<<c>> \o t : c \in {0, 1}, t \in AllBits(n - 1)}

\* quadkey digits of the tile (xb, yb): 2 * ybit + xbit per level
QuadOfBits(xb, yb) == [i \in 1..Len(xb) |-> 2 * yb[i] + xb[i]]
XBitsOfQuad(d) == [i \in 1..Len(d) |-> d[i] % 2]
YBitsOfQuad(d) == [i \in 1..Len(d) |-> d[i] \div 2]
IsQuad(d) == \A i \in 1..Len(d) : d[i] \in 0..3

\* horizontal zoom change on bit sequences: set of <<xb, yb>> at zoom zo
HorizontalZoomBits(xb, yb, zo) ==
  IF zo <= Len(xb) THEN {<<SubSeq(xb, 1, zo), SubSeq(yb, 1, zo)>>}
  ELSE {<<xb \o sx, yb \o sy>> : sx \in AllBits(zo - Len(xb)), sy \in AllBits(zo - Len(xb))}

\* ---- index-form (quadkey, vertical index) pairs (C11) -----------------------
\* an ID here is <<h, xb, yb, v, f>>
PairsOfId(s, hz, vz) ==
  {<<QuadOfBits(t[1], t[2]), g[2]>> :
      t \in HorizontalZoomBits(s[2], s[3], hz), g \in VerticalZoomSet(s[4], s[5], vz)}

\* (quadkey digits of zoom qz, vertical index vi at zoom vz) -> IDs at (hz, ovz)
IdsOfPair(d, vzIn, vi, hz, ovz) ==
  {<<hz, t[1], t[2], ovz, g[2]>> :
      t \in HorizontalZoomBits(XBitsOfQuad(d), YBitsOfQuad(d), hz),
      g \in VerticalZoomSet(vzIn, vi, ovz)}

QuadZoomOk(hz, vz) == 1 <= hz /\ hz <= 31 /\ 0 <= vz /\ vz <= 35

\* ---- altitude keys (C12) ---------------------------------------------------
\* All quantities are integers in units of 2^-S metres, S chosen so that the
\* source cell, the offset and the key cell are whole numbers of units.
ZOrigin == 25
Pow2Sat(n) == IF n >= 30 THEN Pow2(30) ELSE Pow2(n)    \* every model value is < 2^30

SourceValid(f, zi) == -Pow2Sat(zi) <= f /\ f < Pow2Sat(zi)
KeyValid(k, kz) == 0 <= k /\ k < Pow2Sat(kz)

\* Z -> key.  f at zoom zi; keys at zoom zo under (E, O).
ZK_S(zi, zo, E) == MaxOf(0, MaxOf(zi - ZOrigin, zo - E))
ZK_lo(f, zi, S) == f * Pow2(ZOrigin - zi + S)
ZK_hi(f, zi, S) == (f + 1) * Pow2(ZOrigin - zi + S)
ZK_c(zo, E, S)  == Pow2(E - zo + S)
ZK_XMin(f, zi, zo, E, O) == LET S == ZK_S(zi, zo, E) IN FloorDiv(ZK_lo(f, zi, S) + O * Pow2(S), ZK_c(zo, E, S))
ZK_XMax(f, zi, zo, E, O) == LET S == ZK_S(zi, zo, E) IN CeilDiv(ZK_hi(f, zi, S) + O * Pow2(S), ZK_c(zo, E, S)) - 1
ZK_WMin(f, zi, zo, E, O) ==
  LET S == ZK_S(zi, zo, E) IN
  FloorDiv(FloorDiv(ZK_lo(f, zi, S), Pow2(S)) * Pow2(S) + O * Pow2(S), ZK_c(zo, E, S))
ZK_WMax(f, zi, zo, E, O) ==
  LET S == ZK_S(zi, zo, E) IN
  CeilDiv(CeilDiv(ZK_hi(f, zi, S), Pow2(S)) * Pow2(S) + O * Pow2(S), ZK_c(zo, E, S)) - 1

\* acceptance of a returned (min, max) / error (DESIGN.md C12)
ZK_Accept(f, zi, zo, E, O, isErr, mn, mx) ==
  LET xmin == ZK_XMin(f, zi, zo, E, O)  xmax == ZK_XMax(f, zi, zo, E, O)
      wmin == ZK_WMin(f, zi, zo, E, O)  wmax == ZK_WMax(f, zi, zo, E, O)
      exactOut == xmin < 0 \/ xmax >= Pow2Sat(zo)
      widenedFits == wmin >= 0 /\ wmax < Pow2Sat(zo)
  IN  IF isErr THEN ~(SourceValid(f, zi) /\ widenedFits)
      ELSE /\ SourceValid(f, zi) /\ ~exactOut
           /\ mn <= mx
           /\ wmin <= mn /\ mn <= xmin
           /\ xmax <= mx /\ mx <= wmax

\* key -> Z.  key k at zoom kz under (E, O); vertical indices at zoom zo.
KZ_S(kz, zo, E) == MaxOf(0, MaxOf(kz - E, zo - ZOrigin))
KZ_lo(k, kz, E, O, S) == k * Pow2(E - kz + S) - O * Pow2(S)
KZ_hi(k, kz, E, O, S) == (k + 1) * Pow2(E - kz + S) - O * Pow2(S)
KZ_c(zo, S) == Pow2(ZOrigin - zo + S)
KZ_XMin(k, kz, zo, E, O) == LET S == KZ_S(kz, zo, E) IN FloorDiv(KZ_lo(k, kz, E, O, S), KZ_c(zo, S))
KZ_XMax(k, kz, zo, E, O) == LET S == KZ_S(kz, zo, E) IN CeilDiv(KZ_hi(k, kz, E, O, S), KZ_c(zo, S)) - 1
KZ_WMin(k, kz, zo, E, O) ==
  LET S == KZ_S(kz, zo, E) IN FloorDiv(FloorDiv(KZ_lo(k, kz, E, O, S), Pow2(S)) * Pow2(S), KZ_c(zo, S))
KZ_WMax(k, kz, zo, E, O) ==
  LET S == KZ_S(kz, zo, E) IN CeilDiv(CeilDiv(KZ_hi(k, kz, E, O, S), Pow2(S)) * Pow2(S), KZ_c(zo, S)) - 1

KZ_Accept(k, kz, zo, E, O, isErr, mn, mx) ==
  LET xmin == KZ_XMin(k, kz, zo, E, O)  xmax == KZ_XMax(k, kz, zo, E, O)
      wmin == KZ_WMin(k, kz, zo, E, O)  wmax == KZ_WMax(k, kz, zo, E, O)
      exactOut == xmin < -Pow2Sat(zo) \/ xmax >= Pow2Sat(zo)
      widenedFits == wmin >= -Pow2Sat(zo) /\ wmax < Pow2Sat(zo)
  IN  IF isErr THEN ~(KeyValid(k, kz) /\ widenedFits)
      ELSE /\ KeyValid(k, kz) /\ ~exactOut
           /\ mn <= mx
           /\ wmin <= mn /\ mn <= xmin
           /\ xmax <= mx /\ mx <= wmax

\* the exact regime: every cell involved is at least one metre tall
ExactRegimeZK(zi, zo, E) == zi <= ZOrigin /\ zo <= E
ExactRegimeKZ(kz, zo, E) == kz <= E /\ zo <= ZOrigin

\* implementation-shaped operators (mirror convertZToMinAltitudekey and
\* ConvertAltitudekeyToMinMaxZ); used to show where the code leaves the band
ImplZToMinKey(f, zi, zo, E, O) == ArithShift(ArithShift(f, ZOrigin - zi) + O, zo - E)
ImplKeyToZ(k, kz, zo, E, O) ==
  LET d == E - kz
      imin == ArithShift(k, d)
      imax == IF d > 0 THEN ArithShift(k + 1, d) - 1 ELSE imin
      od == zo - ZOrigin
      omin == ArithShift(imin - O, od)
      omax == IF od > 0 THEN ArithShift(imax - O + 1, od) - 1 ELSE ArithShift(imax - O, od)
  IN  <<omin, omax>>

\* ---- the radix tree of the single-zoom overlap checks (C05) --------------------
\* A spatial ID <<z, f, x, y>> inside the altitude domain (-2^(z-1) <= f < 2^(z-1), z >= 1)
\* is stored under three bit strings of length z: the offset vertical index
\* f + 2^(z-1), x and y.  A query overlaps the tree iff, on all three axes at
\* once, a stored key is a prefix of the query key or the query key is a
\* prefix of a stored key (mirrors tree.Append / tree.IsOverlap of the
\* multidimensional radix tree, one level per zoom).
TreeKey(t) == <<BitsOf(t[2] + Pow2(t[1] - 1), t[1]), BitsOf(t[3], t[1]), BitsOf(t[4], t[1])>>
IsPrefix3(a, b) == /\ Len(a[1]) <= Len(b[1])
                   /\ \A i \in 1..3 : SubSeq(b[i], 1, Len(a[i])) = a[i]
TreeOverlap(A, B) ==
  \E a \in A, b \in B : IsPrefix3(TreeKey(a), TreeKey(b)) \/ IsPrefix3(TreeKey(b), TreeKey(a))

\* ---- binary-subdivision altitude IDs (C17) ---------------------------------
\* heights in integer units; the range [mn, mx) is cut into 2^z cells.
\* cell containing altitude a, clamped to the first / last cell:
BitCell(a, z, mn, mx) ==
  LET raw == FloorDiv((a - mn) * Pow2(z), mx - mn)
  IN  IF raw < 0 THEN 0 ELSE IF raw > Pow2(z) - 1 THEN Pow2(z) - 1 ELSE raw
\* the same when the cell height `cell` (= (mx - mn) / 2^z, a whole number of units) is given:
\* used for subdivision zooms up to 35, where 2^z itself exceeds the model's integers
BitCellByHeight(a, z, mn, cell) ==
  LET raw == FloorDiv(a - mn, cell)
  IN  IF raw < 0 THEN 0 ELSE IF z < 30 /\ raw > Pow2(z) - 1 THEN Pow2(z) - 1 ELSE raw
\* implementation-shaped: repeated halving (mirrors calcBitIndex), on units
\* scaled by 2^z so that every border is an integer
RECURSIVE Halve(_, _, _, _, _)
Halve(a, i, lo, hi, acc) ==
  IF i = 0 THEN acc
  ELSE LET mid == (lo + hi) \div 2 IN
       IF a >= mid THEN Halve(a, i - 1, mid, hi, 2 * acc + 1)
       ELSE Halve(a, i - 1, lo, mid, 2 * acc)
CalcBitIndex(a, z, mn, mx) == Halve(a * Pow2(z), z, mn * Pow2(z), mx * Pow2(z), 0)
=============================================================================
