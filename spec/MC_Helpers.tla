------------------------------ MODULE MC_Helpers ------------------------------
(* Small-scope sanity of the reference operators themselves (the laws the     *)
(* helpers are named after): Combinations counts, matrix associativity, shift.*)
EXTENDS Helpers, TLC
VARIABLE c
RECURSIVE Fact(_)
Fact(n) == IF n = 0 THEN 1 ELSE n * Fact(n - 1)
Binom2(n, k) == Fact(n) \div (Fact(k) * Fact(n - k))
Init == c \in {<<"comb", n, k>> : n \in 0..6, k \in 0..6} \cup {<<"shift", m, s>> : m \in -9..9, s \in -5..5}
           \cup {<<"mat", a, b>> : a \in -1..1, b \in -2..2}
Next == UNCHANGED c
Spec == Init /\ [][Next]_c
CombLaw == c[1] = "comb" /\ c[3] <= c[2] =>
   LET cs == Combinations(c[2], c[3]) IN
   /\ Len(cs) = Binom2(c[2], c[3])
   /\ \A i \in 1..Len(cs) : Len(cs[i]) = c[3] /\ \A j \in 1..(c[3] - 1) : cs[i][j] < cs[i][j + 1]
   /\ NoDup(cs)
ShiftLaw == c[1] = "shift" =>
   LET p == ShiftPair(c[2], 0, c[3]) IN
   p[1] * Pow2(p[2]) = ArithShift(c[2], c[3])
MatLaw == c[1] = "mat" =>
   LET A == <<1, c[2], 0, c[3], 1, 2, 0, -1, c[2]>>  B == <<c[3], 1, 1, 0, 2, c[2], 1, 0, 1>>
       C == <<2, 0, c[2], 1, 1, 0, c[3], 1, 1>>  v == <<1, c[2], c[3]>> IN
   /\ MMul(MMul(A, B), C) = MMul(A, MMul(B, C))
   /\ MVec(MMul(A, B), v) = MVec(A, MVec(B, v))
=============================================================================
