SPECIFICATION Spec
CONSTANTS
  M = 2
  InitSets <- InitSub
  Points <- NoPoints
  ShiftOffsets <- SmallShifts
  MaxLayers = 0
  Ops = {"Shift"}
  MaxDepth = 2
  MaxWs = 1000
INVARIANTS C07_InRange C07_Inverse
PROPERTIES C07_Compose C07_ZeroIsIdentity
CHECK_DEADLOCK FALSE
