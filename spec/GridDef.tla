------------------------------- MODULE GridDef -------------------------------
(***************************************************************************)
(* Definitional layer: a voxel is the set of unit cells (voxels of the     *)
(* finest zoom M of a small absolute world) it covers.  The properties are *)
(* stated on regions; SpatialGrid's arithmetic is checked against them.    *)
(***************************************************************************)
EXTENDS SpatialGrid
CONSTANT M          \* depth of the small world: zooms 0..M on both axes

Zooms == 0..M
Vox == {<<h, x, y, v, f>> : h \in Zooms, x \in 0..(Pow2(M) - 1), y \in 0..(Pow2(M) - 1),
                            v \in Zooms, f \in (-Pow2(M))..(Pow2(M) - 1)}
VoxAt(h, v) == {<<h, x, y, v, f>> : x \in 0..(Pow2(h) - 1), y \in 0..(Pow2(h) - 1),
                                    f \in (-Pow2(v))..(Pow2(v) - 1)}
AllVox == UNION {VoxAt(h, v) : h \in Zooms, v \in Zooms}

\* unit cells <<X, Y, F>> of the finest grid
Unit == {<<X, Y, F>> : X \in 0..(Pow2(M) - 1), Y \in 0..(Pow2(M) - 1),
                       F \in (-Pow2(M))..(Pow2(M) - 1)}

InRegion(c, s) == /\ FloorDiv(c[1], Pow2(M - s[1])) = s[2]
                  /\ FloorDiv(c[2], Pow2(M - s[1])) = s[3]
                  /\ FloorDiv(c[3], Pow2(M - s[4])) = s[5]
\* (a constant table, evaluated once by TLC, so that regions are looked up, not recomputed)
RegionTable == [s \in AllVox |-> {c \in Unit : InRegion(c, s)}]
Region(s) == IF s \in AllVox THEN RegionTable[s] ELSE {c \in Unit : InRegion(c, s)}
RegionOf(S) == UNION {Region(s) : s \in S}

\* C03: the voxels of the target grid that intersect the inputs
ChangeZoomDef(S, h, v) == {t \in VoxAt(h, v) : \E s \in S : Region(t) \cap Region(s) # {}}

\* C04
Filled(t, S, h, v) ==
  Region(t) \subseteq RegionOf({s \in S : Eligible(s, h, v) /\ Region(s) \subseteq Region(t)})
MergeDef(S, h, v) ==
  {t \in VoxAt(h, v) : Filled(t, S, h, v)}
    \cup {s \in S : ~Eligible(s, h, v)}
    \cup {s \in S : Eligible(s, h, v) /\ ~Filled(Ancestor(s, h, v), S, h, v)}

\* C05
OverlapDef(a, b) == Region(a) \cap Region(b) # {}

\* C10: expansion of an extended ID to spatial IDs at max(h, v)
ExpandDef(s) == LET m == MaxOf(s[1], s[4])
                IN  {t \in VoxAt(m, m) : Region(t) \subseteq Region(s)}
=============================================================================
