SPECIFICATION Spec
CONSTANTS
  M = 2
  InitSets <- InitPairs
  Points <- NoPoints
  ShiftOffsets <- NoShifts
  MaxLayers = 0
  Ops = {"ChangeZoom"}
  MaxDepth = 1
  MaxWs = 1000
INVARIANTS Emit
CHECK_DEADLOCK FALSE
