SPECIFICATION Spec
INVARIANTS Total NominalAccepted
CHECK_DEADLOCK FALSE
