------------------------------- MODULE Dyadic -------------------------------
(***************************************************************************)
(* Integer arithmetic of the dyadic grid: powers of two, floor / ceiling / *)
(* truncating division, signed arithmetic shift, bits and base-4 digits.   *)
(* Everything else in the specification is built from these operators.     *)
(* TLC integers are 32-bit (overflow is a loud error), so callers keep     *)
(* every intermediate value below 2^30.                                    *)
(***************************************************************************)
EXTENDS Integers, Sequences, FiniteSets

Pow2(n) == 2^n                       \* n >= 0

\* floor(a / b) for b > 0 and either sign of a (TLA+'s \div is floor division)
FloorDiv(a, b) == a \div b
\* floor(a / 2^e) for e >= 0 and |a| < 2^30, without forming 2^e when it would
\* exceed TLC's integers
FloorDivPow2(a, e) == IF e >= 30 THEN (IF a < 0 THEN -1 ELSE 0) ELSE a \div (2^e)
\* ceil(a / b) for b > 0
CeilDiv(a, b) == -((-a) \div b)
\* Go's '/' on integers: rounds toward zero (the classic wrong choice below ground)
TruncDiv(a, b) == IF a >= 0 THEN a \div b ELSE -((-a) \div b)
\* a mod b in 0..b-1 for b > 0
Mod(a, b) == a % b

Abs(a) == IF a < 0 THEN -a ELSE a
MaxOf(a, b) == IF a >= b THEN a ELSE b
MinOf(a, b) == IF a <= b THEN a ELSE b

SetMax(S) == CHOOSE m \in S : \A e \in S : e <= m
SetMin(S) == CHOOSE m \in S : \A e \in S : m <= e

\* floor(i * 2^s) for either sign of i and s: the signed arithmetic shift
ArithShift(i, s) == IF s >= 0 THEN i * Pow2(s) ELSE FloorDivPow2(i, -s)
\* ceil(i * 2^s)
ArithShiftCeil(i, s) == IF s >= 0 THEN i * Pow2(s) ELSE -FloorDivPow2(-i, -s)

\* bit k (k = 0 least significant) of a non-negative integer
Bit(n, k) == (n \div Pow2(k)) % 2

\* sequence <<d_1 .. d_z>> of base-4 digits, most significant first, of the
\* interleaving of y (high bit of each digit) and x (low bit), z digits
QuadDigits(x, y, z) == [i \in 1..z |-> 2 * Bit(y, z - i) + Bit(x, z - i)]

RECURSIVE DigitsValue(_, _)
DigitsValue(d, base) == IF d = <<>> THEN 0
                        ELSE DigitsValue(SubSeq(d, 1, Len(d) - 1), base) * base + d[Len(d)]

\* inverse of QuadDigits
XOfDigits(d) == DigitsValue([i \in 1..Len(d) |-> d[i] % 2], 2)
YOfDigits(d) == DigitsValue([i \in 1..Len(d) |-> d[i] \div 2], 2)

Range(s) == {s[i] : i \in 1..Len(s)}
NoDup(s) == \A i, j \in 1..Len(s) : s[i] = s[j] => i = j
=============================================================================
