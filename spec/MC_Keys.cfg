SPECIFICATION Spec
INVARIANTS K05_TreeIsOverlap K11_Interleave K11_ZoomAgrees K12_BandZK K12_Consistent K12_ImplKeyToZInBand K17_CellIsHalving K17_ByHeight K17_InRange
CHECK_DEADLOCK FALSE
