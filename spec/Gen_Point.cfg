SPECIFICATION Spec
CONSTANTS
  M = 2
  InitSets <- InitEmpty
  Points <- GenPoints
  ShiftOffsets <- NoShifts
  MaxLayers = 0
  Ops = {"Lookup"}
  MaxDepth = 1
  MaxWs = 1000
INVARIANTS Emit

CHECK_DEADLOCK FALSE
