SPECIFICATION Spec
CONSTANTS
  M = 2
  InitSets <- InitMergeGen
  Points <- NoPoints
  ShiftOffsets <- NoShifts
  MaxLayers = 0
  Ops = {"Merge"}
  MaxDepth = 1
  MaxWs = 1000
INVARIANTS Emit

CHECK_DEADLOCK FALSE
