SPECIFICATION Spec
CONSTANTS
  M = 3
  InitSets <- InitSingletons
  Points <- NoPoints
  ShiftOffsets <- NoShifts
  MaxLayers = 0
  Ops = {"Geom"}
  MaxDepth = 1
  MaxWs = 1000
INVARIANTS C02_VerticesAreBox C02_CentreRoundTrip C02_SharedFaces C02_Tiling

CHECK_DEADLOCK FALSE
