SPECIFICATION Spec
CONSTANTS M = 2
INVARIANTS D3_Agrees
CHECK_DEADLOCK FALSE
