SPECIFICATION Spec
CONSTANTS
  M = 2
  InitSets <- InitPairs
  Points <- NoPoints
  ShiftOffsets <- NoShifts
  MaxLayers = 2
  Ops = {"NLayer"}
  MaxDepth = 1
  MaxWs = 1000
INVARIANTS Emit

CHECK_DEADLOCK FALSE
