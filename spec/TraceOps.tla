------------------------------- MODULE TraceOps -------------------------------
(***************************************************************************)
(* One "Explains" clause per recorded operation: the binding between the   *)
(* specification's operators and the events the harness records.           *)
(* Event fields: op, w (window: abs, H0, V0), a (arguments), o (outcome:   *)
(* "ok" / "err" / "panic"), r (result, projected).                         *)
(***************************************************************************)
EXTENDS Neighbour, Keys, Line, Deviations, Validation, Helpers

\* ---- generic helpers ------------------------------------------------------
IsSeq(x) == x = <<>> \/ DOMAIN x = 1..Len(x)     \* used only on values known to be lists
SetOfSeq(s) == {s[i] : i \in 1..Len(s)}
DupFree(s) == Cardinality(SetOfSeq(s)) = Len(s)

\* real zoom of a model zoom
RealH(e, h) == e.w.H0 + h
RealV(e, v) == e.w.V0 + v
ZoomOk(z) == 0 <= z /\ z <= 35

\* a duplicate-free list that, as a set, equals S
ListIsSet(r, S) == DupFree(r) /\ SetOfSeq(r) = S

MachineOps == {"M.Reset", "M.ChangeZoom", "M.Merge", "M.Shift", "M.NLayer", "M.Lookup",
               "M.Overlap", "M.Reparse", "M.KeyRoundTrip", "M.Expand", "M.Higher", "M.Around", "M.SpRoundTrip"}

\* s lies inside t (both extended IDs; s at least as fine as t on both axes)
Region3In(s, t) == s[1] >= t[1] /\ s[4] >= t[4] /\ Ancestor(s, t[1], t[4]) = t
Ok(e) == e.o = "ok"
Err(e) == e.o = "err"

\* ---- C03 ------------------------------------------------------------------
Exp_ChangeZoomExt(e) == ChangeZoom(SetOfSeq(e.a.ids), e.a.h, e.a.v)
X_ChangeZoomExt(e) ==
  IF ZoomOk(RealH(e, e.a.h)) /\ ZoomOk(RealV(e, e.a.v))
  THEN Ok(e) /\ e.a.kept /\ ListIsSet(e.r, Exp_ChangeZoomExt(e))
  ELSE Err(e) /\ e.r = <<>>

Exp_ChangeZoomSp(e) ==
  {ExtToSp(t) : t \in ChangeZoom({SpToExt(s) : s \in SetOfSeq(e.a.ids)}, e.a.z, e.a.z)}
X_ChangeZoomSp(e) ==
  IF ZoomOk(RealH(e, e.a.z))
  THEN Ok(e) /\ e.a.kept /\ ListIsSet(e.r, Exp_ChangeZoomSp(e))
  ELSE Err(e) /\ e.r = <<>>

\* (the library emits them row by row, but C03 does not promise an order: compared as sets, no duplicates)
X_HorizontalZoom(e) == Ok(e) /\ ListIsSet(e.r, HorizontalZoomSet(e.a.zi, e.a.x, e.a.y, e.a.zo))
X_HorizontalZoomMinMax(e) == Ok(e) /\ e.r = HorizontalZoomMinMax(e.a.zi, e.a.x, e.a.y, e.a.zo)
X_VerticalZoom(e) == Ok(e) /\ ListIsSet(e.r, VerticalZoomSet(e.a.zi, e.a.f, e.a.zo))

\* ---- C07 / C08 ------------------------------------------------------------
\* bag equality of two sequences
Count(s, x) == Cardinality({i \in 1..Len(s) : s[i] = x})
SameBag(s, t) == Len(s) = Len(t) /\ \A x \in SetOfSeq(s) \cup SetOfSeq(t) : Count(s, x) = Count(t, x)

Exp_Shift(e) == Shift(e.a.id, e.a.dx, e.a.dy, e.a.dv, e.w.abs)
X_Shift(e) == Ok(e) /\ e.r = <<Exp_Shift(e)>>
                     /\ (e.w.abs => ValidAbsId(<<e.r[1][1], e.r[1][2], e.r[1][3], 0, 0>>))

Exp_ShiftCompose(e) ==
  LET id == e.a.id  d1 == e.a.d1  d2 == e.a.d2  ab == e.w.abs
      r1 == Shift(id, d1[1], d1[2], d1[3], ab)
  IN  << r1, Shift(r1, d2[1], d2[2], d2[3], ab),
         Shift(id, d1[1] + d2[1], d1[2] + d2[2], d1[3] + d2[3], ab), id >>
X_ShiftCompose(e) == /\ Ok(e) /\ e.r = Exp_ShiftCompose(e)
                     /\ e.r[2] = e.r[3]          \* two shifts compose to the shift by the sum
                     /\ e.r[4] = e.a.id          \* shifting back restores the original

X_N6(e)  == Ok(e) /\ SameBag(e.r, N6(e.a.id, e.w.abs))
X_N8(e)  == Ok(e) /\ SameBag(e.r, N8(e.a.id, e.w.abs))
X_N26(e) == Ok(e) /\ SameBag(e.r, N26(e.a.id, e.w.abs))

Exp_NLayer(e) == NLayer(SetOfSeq(e.a.ids), e.a.hl, e.a.vl, e.w.abs)
X_NLayer(e) ==
  IF e.a.hl >= 0 /\ e.a.vl >= 0
  THEN Ok(e) /\ e.a.kept /\ ListIsSet(e.r, Exp_NLayer(e))
  ELSE Err(e) /\ e.r = <<>>

\* ---- C10 ------------------------------------------------------------------
Exp_SpToExt(e) == [i \in 1..Len(e.a.ids) |-> SpToExt(e.a.ids[i])]
X_SpToExt(e) == Ok(e) /\ e.a.kept /\ e.r = Exp_SpToExt(e)
Exp_ExtToSp(e) == [i \in 1..Len(e.a.ids) |-> ExtToSp(e.a.ids[i])]
X_ExtToSp(e) == Ok(e) /\ e.a.kept /\ e.r = Exp_ExtToSp(e)
\* field list, getter list and printed form all return the five numbers in place
X_NewExtID(e) == Ok(e) /\ e.r = <<e.a.id, e.a.id, e.a.id>>
X_Expand(e) == /\ Ok(e) /\ ListIsSet(e.r, ExpandImpl(e.a.id))
               /\ Len(e.r) = ExpandCount(e.a.id)
X_VoxelID(e) == Ok(e) /\ e.r = <<e.a.id[2], e.a.id[3], e.a.id[5]>>

\* results of a million voxels and more are not shipped to TLC: the harness counts the entries (n) and the
\* distinct entries (nd) of the real result; the inputs are one voxel `top` and voxels nested in it (or
\* repeats of it), so the result must have exactly the voxels of top's refinement, each once
X_Volume(e) == /\ Ok(e) /\ e.r.n = e.r.nd
               /\ \A i \in 1..Len(e.a.ids) : Region3In(e.a.ids[i], e.a.top)
               /\ e.r.n = ZoomCountOne(e.a.top, e.a.h, e.a.v)

\* ---- C04 ------------------------------------------------------------------
Exp_MergeExt(e) == MergeImpl(SetOfSeq(e.a.ids), e.a.h, e.a.v)
X_MergeExt(e) ==
  IF ZoomOk(RealH(e, e.a.h)) /\ ZoomOk(RealV(e, e.a.v))
  THEN /\ Ok(e) /\ e.a.kept /\ ListIsSet(e.r, Exp_MergeExt(e))
       /\ ListIsSet(e.a.r2, SetOfSeq(e.r))            \* merging the result again changes nothing
  ELSE Err(e) /\ e.r = <<>>
Exp_MergeSp(e) ==
  {ExtToSp(t) : t \in MergeImpl({SpToExt(s) : s \in SetOfSeq(e.a.ids)}, e.a.z, e.a.z)}
X_MergeSp(e) ==
  IF ZoomOk(RealH(e, e.a.z))
  THEN /\ Ok(e) /\ e.a.kept /\ ListIsSet(e.r, Exp_MergeSp(e))
       /\ ListIsSet(e.a.r2, SetOfSeq(e.r))
  ELSE Err(e) /\ e.r = <<>>

\* the merge's exported building blocks, driven step by step; r = list of <<group, dense>>
Exp_MergeSteps(e) == MergeSteps(SetOfSeq(e.a.ids), e.a.h, e.a.v, e.a.mh, e.a.mv)
X_MergeSteps(e) == Ok(e) /\ ListIsSet(e.r, Exp_MergeSteps(e))
\* ExtendedSpatialID.Higher on its own
X_Higher(e) == Ok(e) /\ e.r = <<Higher(e.a.id, e.a.dh, e.a.dv)>>

\* ---- C05 ------------------------------------------------------------------
\* both argument orders are recorded: r = <<f(A,B), f(B,A)>>
Exp_OverlapExt(e) == LET b == OverlapArr(SetOfSeq(e.a.A), SetOfSeq(e.a.B)) IN <<b, b>>
X_OverlapExt(e) == Ok(e) /\ e.r = Exp_OverlapExt(e)
Exp_OverlapSp(e) ==
  LET b == OverlapArr({SpToExt(s) : s \in SetOfSeq(e.a.A)}, {SpToExt(s) : s \in SetOfSeq(e.a.B)})
  IN  <<b, b>>
X_OverlapSp(e) == Ok(e) /\ e.r = Exp_OverlapSp(e)

\* ---- C01 ------------------------------------------------------------------
\* Rows in the real grid: how far from a row border a lattice point must lie for the model to decide its
\* row depends on the REAL zoom rh: the stored latitude is cut by up to 2e-10 degrees, which is 22 % of
\* a row at zoom 35 near the latitude limit (hence a quarter row there, as in SpatialGrid.LatDecided), but
\* under 1.5 % up to zoom 31 (a sixteenth) and under 0.2 % up to zoom 28 (a sixty-fourth of a row).
LatDecidedReal(p, h, rh) ==
  \/ p[6] # 0
  \/ /\ p[1] >= h + 2
     /\ LET m == Pow2(p[1] - h)
            r == p[3] % m
            D == IF rh <= 28 THEN 64 ELSE IF rh <= 31 THEN 16 ELSE 4
            g == CeilDiv(m, D)
        IN  r >= g /\ r <= m - g
PtMatch(p, id, h, v, ab, rh) ==
  /\ id[1] = h /\ id[4] = v
  /\ id[2] = PointX(p, h, ab)
  /\ LatDecidedReal(p, h, rh)               \* the driver only offers points whose row the model decides
  /\ id[3] = PointY(p, h)
  /\ id[5] = PointF(p, v)
  /\ (ab => 0 <= id[2] /\ id[2] < Pow2(h) /\ 0 <= id[3] /\ id[3] < Pow2(h))
\* A point one floating-point step below (du / da = -1) or above (+1) a lattice point.
\* The altitude is scaled by a power of two, so the step below a layer border belongs to the
\* layer underneath, exactly.  The longitude goes through lon + 180, which may round the step
\* away: just below a column border either neighbour is a correct answer -- except at the east
\* world edge (a.edge), where the only voxel there is the last column; lon < 180 never folds.
NudgeXs(p, du, edge, h, ab) ==
  LET raw == ScaleFloor(p[2], h, p[1])
      onBorder == p[1] <= h \/ p[2] % Pow2(p[1] - h) = 0
  IN  IF du = -1 /\ onBorder
      THEN IF edge THEN {WrapX(raw - 1, h, ab)} ELSE {WrapX(raw - 1, h, ab), WrapX(raw, h, ab)}
      ELSE {WrapX(raw, h, ab)}
NudgeF(p, da, v) ==
  LET onBorder == p[4] <= v \/ p[5] % Pow2(p[4] - v) = 0
  IN  IF da = -1 /\ onBorder THEN PointF(p, v) - 1 ELSE PointF(p, v)
X_PointNudge(e) ==
  /\ Ok(e) /\ Len(e.r) = 1 /\ e.a.valid                       \* real indices inside 0 .. 2^h - 1
  /\ LET id == e.r[1]  p == e.a.p IN
       /\ id[1] = e.a.h /\ id[4] = e.a.v
       /\ id[2] \in NudgeXs(p, e.a.du, e.a.edge, e.a.h, e.w.abs)
       /\ LatDecidedReal(p, e.a.h, RealH(e, e.a.h)) /\ id[3] = PointY(p, e.a.h)
       /\ id[5] = NudgeF(p, e.a.da, e.a.v)
Exp_PointsExt(e) == [i \in 1..Len(e.a.pts) |-> PointToVoxel(e.a.pts[i], e.a.h, e.a.v, e.w.abs)]
X_PointsExt(e) ==
  IF ZoomOk(RealH(e, e.a.h)) /\ ZoomOk(RealV(e, e.a.v))
  THEN /\ Ok(e) /\ Len(e.r) = Len(e.a.pts)              \* length and order of the input list
       /\ \A i \in 1..Len(e.r) : PtMatch(e.a.pts[i], e.r[i], e.a.h, e.a.v, e.w.abs, RealH(e, e.a.h))
  ELSE Err(e) /\ e.r = <<>>
Exp_PointsSp(e) == [i \in 1..Len(e.a.pts) |-> ExtToSp(PointToVoxel(e.a.pts[i], e.a.z, e.a.z, e.w.abs))]
X_PointsSp(e) ==
  IF ZoomOk(RealH(e, e.a.z))
  THEN /\ Ok(e) /\ Len(e.r) = Len(e.a.pts)
       /\ \A i \in 1..Len(e.r) : PtMatch(e.a.pts[i], SpToExt(e.r[i]), e.a.z, e.a.z, e.w.abs, RealH(e, e.a.z))
  ELSE Err(e) /\ e.r = <<>>

\* arbitrary float64 points: the returned voxel contains the point according to the vertex query
X_PointInVoxel(e) == /\ Ok(e) /\ e.r.n = 1
                     /\ e.r.west /\ e.r.east /\ e.r.south /\ e.r.north /\ e.r.bottom /\ e.r.top

\* ---- C02 ------------------------------------------------------------------
X_Vertex(e) == Ok(e) /\ e.r = Vertices(e.a.id)
\* centre: exact midpoint in longitude and altitude; latitude within the 1e-10
\* degree storage resolution of the midpoint of the reported edges (units 1e-12);
\* converting it back at the same zooms returns the voxel
X_Centre(e) == /\ Ok(e)
               /\ e.r.cu = CentreU(e.a.id) /\ e.r.ca = CentreA(e.a.id)
               /\ e.r.latdev <= 101
               /\ e.r.back = <<e.a.id>>
\* which corners of the two voxels coincide, per direction (east, south, up)
FaceMapA == << <<2, 3, 6, 7>>, <<4, 3, 8, 7>>, <<5, 6, 7, 8>> >>
FaceMapB == << <<1, 4, 5, 8>>, <<1, 2, 5, 6>>, <<1, 2, 3, 4>> >>
X_Face(e) == /\ Ok(e) /\ Len(e.r.a) = 8 /\ Len(e.r.b) = 8
             /\ \A i \in 1..4 : e.r.a[FaceMapA[e.a.dir + 1][i]] = e.r.b[FaceMapB[e.a.dir + 1][i]]

\* ---- C09 (relations between real calls, arbitrary float64 points) ---------
Origin == <<0, 0, 0, 0, 0>>
X_Hier(e) == /\ Ok(e)
             /\ e.r.coarse = <<Origin>>                       \* window anchored at the coarse voxel
             /\ Len(e.r.fine) = 1
             /\ e.r.fine[1][1] = e.a.dh /\ e.r.fine[1][4] = e.a.dv
             /\ Ancestor(e.r.fine[1], 0, 0) = Origin           \* nested
             /\ e.r.zoomed = <<Origin>>                       \* zoom-out of the fine ID is the coarse ID
             /\ e.r.ov = <<TRUE, TRUE>>                       \* and they overlap, either order

\* ---- C11 ------------------------------------------------------------------
RECURSIVE SumLens(_)
SumLens(gs) == IF gs = <<>> THEN 0 ELSE Len(gs[1].pairs) + SumLens(Tail(gs))
AllPairs(gs) == UNION {SetOfSeq(gs[i].pairs) : i \in 1..Len(gs)}

Exp_ExtToQK(e) == UNION {PairsOfId(s, e.a.hz, e.a.vz) : s \in SetOfSeq(e.a.ids)}
X_ExtToQK(e) ==
  IF QuadZoomOk(e.a.hz, RealV(e, e.a.vz))
  THEN /\ Ok(e) /\ e.a.kept
       /\ \A i \in 1..Len(e.r) :                       \* every group echoes the request
             e.r[i].hz = e.a.hz /\ e.r[i].vz = e.a.vz /\ e.r[i].echo /\ e.r[i].pairs # <<>>
       /\ Cardinality(AllPairs(e.r)) = SumLens(e.r)    \* no pair twice across all groups
       /\ AllPairs(e.r) = Exp_ExtToQK(e)               \* = per-axis zoom change of the inputs
  ELSE Err(e) /\ e.r = <<>>

Exp_QKToExt(e) ==
  UNION {IdsOfPair(q[2], q[3], q[4], e.a.hz, e.a.vz) : q \in SetOfSeq(e.a.keys)}
X_QKToExt(e) ==
  IF ZoomOk(e.a.hz) /\ ZoomOk(RealV(e, e.a.vz))
     /\ \A q \in SetOfSeq(e.a.keys) : QuadZoomOk(q[1], RealV(e, q[3]))
  THEN Ok(e) /\ ListIsSet(e.r, Exp_QKToExt(e))
  ELSE Err(e) /\ e.r = <<>>
\* spatial-ID form: results are <<z, xb, yb, z, f>> (parsed from z/f/x/y)
X_QKToSp(e) ==
  IF ZoomOk(e.a.hz) /\ \A q \in SetOfSeq(e.a.keys) : QuadZoomOk(q[1], RealV(e, q[3]))
  THEN Ok(e) /\ ListIsSet(e.r, Exp_QKToExt(e)) /\ e.a.hz = e.a.vz
  ELSE Err(e) /\ e.r = <<>>

\* ---- C12 ------------------------------------------------------------------
X_ZToKey(e) == /\ e.o \in {"ok", "err"}
               /\ ZK_Accept(e.a.f, e.a.zi, e.a.zo, e.a.E, e.a.O, Err(e), e.r[1], e.r[2])
X_KeyToZ(e) == /\ e.o \in {"ok", "err"}
               /\ KZ_Accept(e.a.k, e.a.kz, e.a.zo, e.a.E, e.a.O, Err(e), e.r[1], e.r[2])
Band_ZToKey(e) == [exact |-> <<ZK_XMin(e.a.f, e.a.zi, e.a.zo, e.a.E, e.a.O), ZK_XMax(e.a.f, e.a.zi, e.a.zo, e.a.E, e.a.O)>>,
                   widened |-> <<ZK_WMin(e.a.f, e.a.zi, e.a.zo, e.a.E, e.a.O), ZK_WMax(e.a.f, e.a.zi, e.a.zo, e.a.E, e.a.O)>>,
                   sourceValid |-> SourceValid(e.a.f, e.a.zi)]
Band_KeyToZ(e) == [exact |-> <<KZ_XMin(e.a.k, e.a.kz, e.a.zo, e.a.E, e.a.O), KZ_XMax(e.a.k, e.a.kz, e.a.zo, e.a.E, e.a.O)>>,
                   widened |-> <<KZ_WMin(e.a.k, e.a.kz, e.a.zo, e.a.E, e.a.O), KZ_WMax(e.a.k, e.a.kz, e.a.zo, e.a.E, e.a.O)>>,
                   keyValid |-> KeyValid(e.a.k, e.a.kz)]

\* ---- altitude-key groups (C11 structure + C12 band per ID) -------------------
PerZK(e, i) == LET s == e.a.ids[i]  p == e.a.per[i] IN
   p[1] # "panic" /\ ZK_Accept(s[5], s[4], e.a.az, e.a.E, e.a.O, p[1] = "err", p[2], p[3])
Exp_ExtToQKAlt(e) ==
  UNION {{<<QuadOfBits(t[1], t[2]), k>> :
             t \in HorizontalZoomBits(e.a.ids[i][2], e.a.ids[i][3], e.a.hz),
             k \in e.a.per[i][2]..e.a.per[i][3]} : i \in 1..Len(e.a.ids)}
X_ExtToQKAlt(e) ==
  LET n == Len(e.a.ids)
      zoomsOk == QuadZoomOk(e.a.hz, e.a.az) /\ \A i \in 1..n : ZoomOk(e.a.ids[i][1]) /\ ZoomOk(e.a.ids[i][4])
      anyErr == \E i \in 1..n : e.a.per[i][1] = "err"
  IN  /\ \A i \in 1..n : PerZK(e, i)                       \* every per-ID range is inside the C12 band
      /\ IF ~zoomsOk \/ anyErr THEN Err(e) /\ e.r = <<>>     \* all or nothing
         ELSE /\ Ok(e) /\ e.a.kept
              /\ \A i \in 1..Len(e.r) : /\ e.r[i].hz = e.a.hz /\ e.r[i].az = e.a.az
                                         /\ e.r[i].E = e.a.E /\ e.r[i].O = e.a.O /\ e.r[i].pairs # <<>>
              /\ Cardinality(AllPairs(e.r)) = SumLens(e.r)
              /\ AllPairs(e.r) = Exp_ExtToQKAlt(e)

\* ---- C13 ------------------------------------------------------------------
PerKZ(e, i) == LET x == e.a.tiles[i]  p == e.a.per[i] IN
   p[1] # "panic" /\ KZ_Accept(x[5], x[4], e.a.ovz, e.a.E, e.a.O, p[1] = "err", p[2], p[3])
Exp_TilesToExt(e) ==
  UNION {{<<e.a.tiles[i][1], e.a.tiles[i][2], e.a.tiles[i][3], e.a.ovz, z>> :
             z \in e.a.per[i][2]..e.a.per[i][3]} : i \in 1..Len(e.a.tiles)}
TilesValid(e) == /\ ZoomOk(e.a.ovz)
                 /\ \A i \in 1..Len(e.a.tiles) : ZoomOk(e.a.tiles[i][1]) /\ e.a.per[i][1] = "ok"
X_TilesToExt(e) ==
  /\ \A i \in 1..Len(e.a.tiles) : PerKZ(e, i)
  /\ IF TilesValid(e) THEN Ok(e) /\ ListIsSet(e.r, Exp_TilesToExt(e))   \* footprint kept, requested vertical zoom, no duplicates
     ELSE Err(e) /\ e.r = <<>>                                           \* no partial result
\* expansion (C10) on bit sequences
ExpandBits(s) == LET m == MaxOf(s[1], s[4]) IN
  {<<m, t[1], t[2], m, g[2]>> : t \in HorizontalZoomBits(s[2], s[3], m), g \in VerticalZoomSet(s[4], s[5], m)}
Exp_TilesToSp(e) == UNION {ExpandBits(s) : s \in Exp_TilesToExt(e)}
X_TilesToSp(e) ==
  /\ \A i \in 1..Len(e.a.tiles) : PerKZ(e, i)
  /\ IF TilesValid(e) THEN Ok(e) /\ SetOfSeq(e.r) = Exp_TilesToSp(e)
     ELSE Err(e) /\ e.r = <<>>

\* ---- C17 ------------------------------------------------------------------
Exp_BitFwd(e) ==
  {<<QuadOfBits(t[1], t[2]), k>> :
      t \in HorizontalZoomBits(e.a.id[2], e.a.id[3], e.a.hz),
      k \in BitCell(e.a.lo, e.a.vz, e.a.mn, e.a.mx)..BitCell(e.a.hi, e.a.vz, e.a.mn, e.a.mx)}
X_BitFwd(e) ==
  IF e.a.mx < e.a.mn THEN Err(e)
  ELSE /\ Ok(e)
       /\ \A i \in 1..Len(e.r) : e.r[i].hz = e.a.hz /\ e.r[i].vz = e.a.vz /\ e.r[i].echo
       /\ Cardinality(AllPairs(e.r)) = SumLens(e.r)
       /\ AllPairs(e.r) = Exp_BitFwd(e)
       /\ \A p \in AllPairs(e.r) : 0 <= p[2] /\ p[2] <= Pow2(e.a.vz) - 1     \* always inside the subdivision
\* several voxels at once (nested, overlapping, repeated): the union of their cells, each pair once
Exp_BitFwdList(e) ==
  UNION {{<<QuadOfBits(t[1], t[2]), k>> :
            t \in HorizontalZoomBits(e.a.ids[i][2], e.a.ids[i][3], e.a.hz),
            k \in BitCell(e.a.los[i], e.a.vz, e.a.mn, e.a.mx)..BitCell(e.a.his[i], e.a.vz, e.a.mn, e.a.mx)} :
         i \in 1..Len(e.a.ids)}
X_BitFwdList(e) ==
  /\ Ok(e)
  /\ \A i \in 1..Len(e.r) : e.r[i].hz = e.a.hz /\ e.r[i].vz = e.a.vz /\ e.r[i].echo
  /\ Cardinality(AllPairs(e.r)) = SumLens(e.r)
  /\ AllPairs(e.r) = Exp_BitFwdList(e)
\* Height ranges that are not on any binary lattice (decimal metres, feet).  The model cannot hold such bounds, so
\* the harness only sizes the answer from the geometry: how many cells the voxel's height spans (lenLo..lenHi,
\* with a cell of slack) and about which cell its middle lies in (midLo..midHi, clamped into the subdivision).
\* Whatever the arithmetic, the cells must form one contiguous run inside 0..2^zoom-1 of that size and place.
X_BitFwdFree(e) ==
  /\ Ok(e)
  /\ \A i \in 1..Len(e.r) : e.r[i].hz = e.a.hz /\ e.r[i].vz = e.a.vz /\ e.r[i].echo
  /\ Cardinality(AllPairs(e.r)) = SumLens(e.r)
  /\ LET K == {p[2] : p \in AllPairs(e.r)}
         Q == {p[1] : p \in AllPairs(e.r)} IN
       /\ K # {} /\ SetMax(K) - SetMin(K) + 1 = Cardinality(K)                 \* one contiguous run
       /\ SetMin(K) >= 0 /\ (e.a.vz < 30 => SetMax(K) <= Pow2(e.a.vz) - 1)     \* inside the subdivision
       /\ e.a.lenLo <= Cardinality(K) /\ Cardinality(K) <= e.a.lenHi
       /\ \E k \in K : e.a.midLo <= k /\ k <= e.a.midHi
       /\ AllPairs(e.r) = {<<q, k>> : q \in Q, k \in K}                         \* the same run under every quadkey
\* high subdivision zooms (13..35): the driver gives the cell height instead of the range end
Exp_BitFwdHi(e) ==
  {<<QuadOfBits(t[1], t[2]), k>> :
      t \in HorizontalZoomBits(e.a.id[2], e.a.id[3], e.a.hz),
      k \in BitCellByHeight(e.a.lo, e.a.vz, e.a.mn, e.a.cell)..BitCellByHeight(e.a.hi, e.a.vz, e.a.mn, e.a.cell)}
X_BitFwdHi(e) ==
  /\ Ok(e)
  /\ \A i \in 1..Len(e.r) : e.r[i].hz = e.a.hz /\ e.r[i].vz = e.a.vz /\ e.r[i].echo
  /\ Cardinality(AllPairs(e.r)) = SumLens(e.r)
  /\ AllPairs(e.r) = Exp_BitFwdHi(e)
Exp_BitBackHi(e) ==
  LET q == e.a.key
      lo == e.a.mn + q[4] * e.a.cell
      sh == e.a.ovz - 25 - e.a.S
      fLo == ArithShift(lo, sh)  fHi == ArithShift(lo + e.a.cell, sh)
  IN  {<<e.a.hz, t[1], t[2], e.a.ovz, g>> :
          t \in HorizontalZoomBits(XBitsOfQuad(q[2]), YBitsOfQuad(q[2]), e.a.hz), g \in fLo..fHi}
X_BitBackHi(e) == Ok(e) /\ ListIsSet(e.r, Exp_BitBackHi(e))
Exp_BitBack(e) ==
  LET q == e.a.key  span == e.a.mx - e.a.mn
      loN == e.a.mn * Pow2(q[3]) + q[4] * span
      sh == e.a.ovz - 25 - e.a.S - q[3]
      fLo == ArithShift(loN, sh)  fHi == ArithShift(loN + span, sh)
  IN  {<<e.a.hz, t[1], t[2], e.a.ovz, g>> :
          t \in HorizontalZoomBits(XBitsOfQuad(q[2]), YBitsOfQuad(q[2]), e.a.hz), g \in fLo..fHi}
\* several keys at once (one column, the same numbers at different subdivision zooms, repeats): the union, each ID once
BitBackOne(q, hz, ovz, S, mn, mx) ==
  LET span == mx - mn
      loN == mn * Pow2(q[3]) + q[4] * span
      sh == ovz - 25 - S - q[3]
      fLo == ArithShift(loN, sh)  fHi == ArithShift(loN + span, sh)
  IN  {<<hz, t[1], t[2], ovz, g>> : t \in HorizontalZoomBits(XBitsOfQuad(q[2]), YBitsOfQuad(q[2]), hz), g \in fLo..fHi}
X_BitBackList(e) ==
  Ok(e) /\ ListIsSet(e.r, UNION {BitBackOne(e.a.keys[i], e.a.hz, e.a.ovz, e.a.S, e.a.mn, e.a.mx) : i \in 1..Len(e.a.keys)})
X_BitBack(e) ==
  IF e.a.mx < e.a.mn THEN Err(e) /\ e.r = <<>>
  ELSE Ok(e) /\ ListIsSet(e.r, Exp_BitBack(e))

\* ---- C06 ------------------------------------------------------------------
X_Line(e) == Ok(e) /\ LineAccept(e.r, e.a.moves, e.a.end)

\* Segments with an end point at longitude exactly +180 (stored as given, looked up in column 0): on the cylinder the
\* point lies on the border between the last and the first column.  Only the clause that needs no walk is judged:
\* no duplicates, and every returned voxel meets the segment (measured by the harness in longitude / latitude /
\* altitude, the voxel's box taken at its own longitudes and one turn east and west of them).
X_LineTouch(e) == Ok(e) /\ e.a.off = <<>> /\ e.a.n = e.a.distinct /\ e.a.n >= 1
X_LineLong(e) == Ok(e) /\ LineLongAccept(e.r, e.a.end, e.a.off)
X_LineAxisCount(e) == Ok(e) /\ LineAxisCountAccept(e.r, e.a.n)
X_LineAxis(e) == Ok(e) /\ LineAxisAccept(e.r, e.a.axis, e.a.n)

\* ---- C14 ------------------------------------------------------------------
X_CorridorAxis(e) == Ok(e) /\ CorridorAxisAccept(e.r.rm, e.r.rs, e.a.axis, e.a.n, e.a.fitH, e.a.fitV, e.a.zeroRadius)
X_Corridor(e) == Ok(e) /\ CorridorAccept(e.r.rm, e.r.rs, e.a.L, e.a.fitH, e.a.fitV, e.a.zeroRadius, e.a.far, e.a.mod)
\* negative radius, invalid zoom, nil point: an error and no result
\* r = <<layers for clearance c, layers for the larger clearance c2>>, each <<east-west, north-south>>
X_Fit(e) == /\ Ok(e)
            /\ FitAccept(e.r[1][1], e.a.c, e.a.gh) /\ FitAccept(e.r[1][2], e.a.c, e.a.gv)
            /\ FitAccept(e.r[2][1], e.a.c2, e.a.gh) /\ FitAccept(e.r[2][2], e.a.c2, e.a.gv)
            /\ FitMonotone(e.r[1], e.r[2])
            /\ (e.a.c = 0 => e.r[1] = <<0, 0>>)
X_CorridorInvalid(e) == Err(e) /\ e.r = 0

\* ---- C16 ------------------------------------------------------------------
\* r = the results of the same call: twice unchanged, on a permuted and on a
\* duplicated argument list, and under every imposed map-iteration order
X_Determ(e) ==
  /\ Ok(e) /\ e.a.kept                                          \* caller's slices untouched
  /\ \A i \in 1..Len(e.r) : SetOfSeq(e.r[i]) = SetOfSeq(e.r[1])  \* same set every time
  /\ (e.a.dedup => \A i \in 1..Len(e.r) : DupFree(e.r[i]))      \* no ID twice

\* ---- C15 ------------------------------------------------------------------
X_Invalid(e) == Accept(FnByName(e.a.fn), e.a.cv, e.o, e.r.empty, e.r.emptyid)
\* accepted points: longitude and altitude bit-identical, latitude cut toward zero by < 1e-10 degree (units 1e-13)
X_PointStore(e) == Ok(e) /\ e.r.lon /\ e.r.alt /\ e.r.toward /\ 0 <= e.r.cut /\ e.r.cut < 1000

\* ---- C20 ------------------------------------------------------------------
X_SetOps(e) == /\ Ok(e) /\ e.a.kept
               /\ UnionOk(e.r.union, e.a.x, e.a.y) /\ IntersectOk(e.r.inter, e.a.x, e.a.y)
               /\ DifferenceOk(e.r.diff, e.a.x, e.a.y) /\ UniqueOk(e.r.uniq, e.a.x)
               /\ IncludeOk(e.r.incl, e.a.x, e.a.t)
X_MaxMin(e) == MaxOk(e.r.max, e.r.errmax, e.a.xs) /\ MinOk(e.r.min, e.r.errmin, e.a.xs)
X_ArithShift(e) == Ok(e) /\ e.r = ShiftPair(e.a.m, e.a.k, e.a.s)
X_Combinations(e) == Ok(e) /\ e.r = Combinations(e.a.n, e.a.k)    \* every k-subset once, lexicographic
X_Vector(e) == /\ Ok(e)
               /\ e.r.add = VAdd(e.a.u, e.a.v) /\ e.r.sub = VSub(e.a.u, e.a.v)
               /\ e.r.scale = VScale(e.a.u, e.a.s) /\ e.r.cross = VCross(e.a.u, e.a.v)
               /\ e.r.dot = VDot(e.a.u, e.a.v) /\ e.r.l1 = VL1(e.a.u)
               /\ e.r.pq = VSub(e.a.v, e.a.u) /\ e.r.tr = VAdd(e.a.u, e.a.v)
               /\ e.r.norm2dev <= 10
X_Matrix(e) == /\ Ok(e)
               /\ e.r.ab = MMul(e.a.A, e.a.B)
               /\ e.r.abc1 = MMul(MMul(e.a.A, e.a.B), e.a.C) /\ e.r.abc2 = e.r.abc1       \* associative
               /\ e.r.abv1 = MVec(MMul(e.a.A, e.a.B), e.a.v) /\ e.r.abv2 = e.r.abv1       \* agrees with application
               /\ e.r.iv = e.a.v
X_Line3(e) == /\ Ok(e) /\ e.r.t0 = e.a.p /\ e.r.t1 = e.a.q /\ e.r.start = e.a.p /\ e.r.end = e.a.q
              /\ e.r.mid2 = VAdd(e.a.p, e.a.q)
\* rotation between two vectors: unit quaternion carrying the first direction onto the second (1e-6)
X_Quat(e) == Ok(e) /\ e.r.normdev <= 1000000 /\ e.r.dirdev <= 1000000

\* ---- C18 ------------------------------------------------------------------
AllLeq(s, b) == \A i \in 1..Len(s) : s[i] <= b
\* (e.a.pre / preinv / invfirst: an unjudged call with another CRS came first, in either direction, and / or the
\*  reverse conversion was called before the forward one, on the closed-form coordinates: the clauses are the same -
\*  the answer for a CRS does not depend on what was converted before)
X_Project(e) ==
  IF ~e.a.known THEN (e.a.n > 0 => Err(e))                 \* unknown EPSG code: conversion error
  ELSE /\ Ok(e)
       /\ e.r.n = e.a.n /\ e.r.alt                          \* length / order kept, altitude bit for bit
       /\ (e.r.backok => e.r.bn = e.a.n /\ e.r.balt)        \* and back (another CRS may refuse a point outside its area)
       /\ (e.a.code = 3857 =>
             /\ e.r.backok
             /\ Len(e.r.devx) = e.a.n /\ AllLeq(e.r.devx, 1000) /\ AllLeq(e.r.devy, 1000)   \* spherical Mercator on R = 6378137 within 1e-6 m
             /\ Len(e.r.dlon) = e.a.n /\ AllLeq(e.r.dlon, 20) /\ AllLeq(e.r.dlat, 20))      \* back within 2e-10 degree

\* ---- the rest of the exported surface ------------------------------------------
X_CheckZoom(e) == Ok(e) /\ CheckZoomOk(e.r[1], e.a.z)
\* "<code>,<fixed message>[,<detail>]"; equal arguments give equal (comparable) error values
X_ErrorValue(e) == /\ Ok(e) /\ e.r.first = e.a.code
                   /\ e.r.fields >= (IF e.a.detail = "" THEN 2 ELSE 3)
                   /\ e.r.last = e.a.detail
                   /\ (e.a.code = "InputValueError" => e.r.same)
\* plain data objects return what was stored, field by field
X_Objects(e) == LET v == e.a.v IN
   /\ Ok(e)
   /\ e.r.qk = <<v[1], v[2], v[3], v[4], v[5], v[6]>>
   /\ e.r.tile = <<v[1] % 36, v[2], v[3], v[4] % 36, v[5]>>
   /\ e.r.g1 = <<v[1], v[2], v[3], v[4], v[5], v[6]>>
   /\ e.r.g2 = <<v[1], v[2], v[3], v[4], v[5], v[6]>>
   /\ e.r.ext = <<v[1], v[2], v[3], v[4], v[5]>>
   /\ e.r.alt = v[6]
X_Point3(e) ==
   /\ Ok(e)
   /\ MaxPointOk(e.r.max, e.r.errmax, e.a.pts, e.a.dir) /\ MinPointOk(e.r.min, e.r.errmin, e.a.pts, e.a.dir)
   /\ UniqueAppendOk(e.r.appended, e.a.pts, e.a.add, e.a.eps)
   /\ (e.a.pts # <<>> => e.r.d2 = Dist2(e.a.pts[1], e.a.add) /\ e.r.close = Close3(e.a.pts[1], e.a.add, e.a.eps))
   /\ e.r.almost = (Abs(e.a.dir[1] - e.a.add[1]) <= e.a.eps)
X_ObjHistory(e) == Ok(e) /\ e.r = ObjRun(ObjInit, e.a.ops)
X_RegHistory(e) == Ok(e) /\ e.r = RegRun(e.a.init, e.a.ops)
X_Angles(e) == Ok(e) /\ e.r.raddev <= 4 /\ e.r.backdev <= 4

\* ---- C19 ------------------------------------------------------------------
\* r = <<result of the call run alone, result of the same call run concurrently>> (sorted lists)
X_Conc(e) == Ok(e) /\ e.r[1] = e.r[2]

\* ---- laws between real calls (value ranges beyond TLC's integers) ---------------
\* r = <<left-hand side, right-hand side>>, both computed by the real library and
\* recorded as strings; e.a.law names the law (see harness/fam_laws.go):
\*   ZoomOutCompose, LookupThenZoomOut, HorizontalMinMaxCompose, InOutMergeIdentity (C03 / C09),
\*   ShiftComposeLarge (C07), AltitudeKeySubVoxelEnds, KeyToZSubKeyEnds, AltitudeKeyTranslate,
\*   KeyToZTranslate, TileIsKeyRange (C13) (C12: translation invariance ties indices / offsets beyond 2^28 to the small
\*   ones whose band X_ZToKey / X_KeyToZ evaluate exactly)
\* list laws: "<Op>ListIsUnionOfMembers" - a list function applied to a list whose members differ in zoom pair, or
\* lie a power-of-two stride apart, or coincide under a packed (zoom, index) key, returns the union of what it
\* returns for each member alone (C03, C08, C13, C17: "for every list", "each tile / voxel its own range")
\* a voxelisation call that the harness's watchdog had to give up on (no return within the limit, or allocation without
\* bound) is recorded with a non-empty `bad`; one that returns is only required to have returned
X_LineCall(e) == e.o \in {"ok", "err"}
X_Law(e) == Ok(e) /\ e.r[1] = e.r[2] /\ e.r[1] # <<>>

\* ---- dispatch -------------------------------------------------------------
Explains(e) ==
  /\ e.bad = ""
  /\ CASE e.op = "ChangeZoomExt"        -> X_ChangeZoomExt(e)
      [] e.op = "ChangeZoomSp"         -> X_ChangeZoomSp(e)
      [] e.op = "HorizontalZoom"       -> X_HorizontalZoom(e)
      [] e.op = "HorizontalZoomMinMax" -> X_HorizontalZoomMinMax(e)
      [] e.op = "VerticalZoom"         -> X_VerticalZoom(e)
      [] e.op = "Shift"                -> X_Shift(e)
      [] e.op = "ShiftCompose"         -> X_ShiftCompose(e)
      [] e.op = "N6"                   -> X_N6(e)
      [] e.op = "N8"                   -> X_N8(e)
      [] e.op = "N26"                  -> X_N26(e)
      [] e.op = "NLayer"               -> X_NLayer(e)
      [] e.op = "SpToExt"              -> X_SpToExt(e)
      [] e.op = "ExtToSp"              -> X_ExtToSp(e)
      [] e.op = "NewExtID"             -> X_NewExtID(e)
      [] e.op = "Expand"               -> X_Expand(e)
      [] e.op = "VoxelID"              -> X_VoxelID(e)
      [] e.op = "Volume"               -> X_Volume(e)
      [] e.op = "MergeExt"             -> X_MergeExt(e)
      [] e.op = "MergeSp"              -> X_MergeSp(e)
      [] e.op = "MergeSteps"           -> X_MergeSteps(e)
      [] e.op = "Higher"               -> X_Higher(e)
      [] e.op = "RegHistory"           -> X_RegHistory(e)
      [] e.op \in {"OverlapExt", "OverlapExtArr"} -> X_OverlapExt(e)
      [] e.op \in {"OverlapSp", "OverlapSpArr"}   -> X_OverlapSp(e)
      [] e.op = "PointsExt"            -> X_PointsExt(e)
      [] e.op = "PointsSp"             -> X_PointsSp(e)
      [] e.op = "PointNudge"           -> X_PointNudge(e)
      [] e.op = "PointInVoxel"         -> X_PointInVoxel(e)
      [] e.op \in {"VertexExt", "VertexSp"} -> X_Vertex(e)
      [] e.op \in {"CentreExt", "CentreSp"} -> X_Centre(e)
      [] e.op = "Face"                 -> X_Face(e)
      [] e.op = "Hier"                 -> X_Hier(e)
      [] e.op \in {"ExtToQK", "SpToQK"} -> X_ExtToQK(e)
      [] e.op = "QKToExt"              -> X_QKToExt(e)
      [] e.op = "QKToSp"               -> X_QKToSp(e)
      [] e.op = "ZToKey"               -> X_ZToKey(e)
      [] e.op = "KeyToZ"               -> X_KeyToZ(e)
      [] e.op = "ExtToQKAlt"           -> X_ExtToQKAlt(e)
      [] e.op = "TilesToExt"           -> X_TilesToExt(e)
      [] e.op = "TilesToSp"            -> X_TilesToSp(e)
      [] e.op = "BitFwd"               -> X_BitFwd(e)
      [] e.op = "BitFwdList"           -> X_BitFwdList(e)
      [] e.op = "BitFwdFree"           -> X_BitFwdFree(e)
      [] e.op = "BitBack"              -> X_BitBack(e)
      [] e.op = "BitBackList"          -> X_BitBackList(e)
      [] e.op = "BitFwdHi"             -> X_BitFwdHi(e)
      [] e.op = "BitBackHi"            -> X_BitBackHi(e)
      [] e.op \in {"Line", "LineSp"}   -> X_Line(e)
      [] e.op = "Corridor"             -> X_Corridor(e)
      [] e.op = "LineAxis"             -> X_LineAxis(e)
      [] e.op = "LineAxisCount"        -> X_LineAxisCount(e)
      [] e.op = "LineLong"             -> X_LineLong(e)
      [] e.op = "LineTouch"            -> X_LineTouch(e)
      [] e.op = "CorridorAxis"         -> X_CorridorAxis(e)
      [] e.op = "CorridorInvalid"      -> X_CorridorInvalid(e)
      [] e.op = "Fit"                  -> X_Fit(e)
      [] e.op = "Determ"               -> X_Determ(e)
      [] e.op = "Invalid"              -> X_Invalid(e)
      [] e.op = "PointStore"           -> X_PointStore(e)
      [] e.op = "SetOps"               -> X_SetOps(e)
      [] e.op = "MaxMin"               -> X_MaxMin(e)
      [] e.op = "ArithShift"           -> X_ArithShift(e)
      [] e.op = "Combinations"         -> X_Combinations(e)
      [] e.op = "Vector"               -> X_Vector(e)
      [] e.op = "Matrix"               -> X_Matrix(e)
      [] e.op = "Line3"                -> X_Line3(e)
      [] e.op = "Quat"                 -> X_Quat(e)
      [] e.op = "Project"              -> X_Project(e)
      [] e.op = "Conc"                 -> X_Conc(e)
      [] e.op = "CheckZoom"            -> X_CheckZoom(e)
      [] e.op = "ErrorValue"           -> X_ErrorValue(e)
      [] e.op = "Objects"              -> X_Objects(e)
      [] e.op = "Point3"               -> X_Point3(e)
      [] e.op = "Angles"               -> X_Angles(e)
      [] e.op = "ObjHistory"           -> X_ObjHistory(e)
      [] e.op = "Law"                  -> X_Law(e)
      [] e.op = "LineCall"             -> X_LineCall(e)
      [] OTHER -> FALSE

\* what the specification expected (diagnostics for a rejected line)
Expected(e) ==
  CASE e.op = "ChangeZoomExt"        -> Exp_ChangeZoomExt(e)
    [] e.op = "ChangeZoomSp"         -> Exp_ChangeZoomSp(e)
    [] e.op = "HorizontalZoom"       -> HorizontalZoomSeq(e.a.zi, e.a.x, e.a.y, e.a.zo)
    [] e.op = "HorizontalZoomMinMax" -> HorizontalZoomMinMax(e.a.zi, e.a.x, e.a.y, e.a.zo)
    [] e.op = "VerticalZoom"         -> VerticalZoomSeq(e.a.zi, e.a.f, e.a.zo)
    [] e.op = "Shift"                -> <<Exp_Shift(e)>>
    [] e.op = "ShiftCompose"         -> Exp_ShiftCompose(e)
    [] e.op = "N6"                   -> N6(e.a.id, e.w.abs)
    [] e.op = "N8"                   -> N8(e.a.id, e.w.abs)
    [] e.op = "N26"                  -> N26(e.a.id, e.w.abs)
    [] e.op = "NLayer"               -> Exp_NLayer(e)
    [] e.op = "SpToExt"              -> Exp_SpToExt(e)
    [] e.op = "ExtToSp"              -> Exp_ExtToSp(e)
    [] e.op = "NewExtID"             -> <<e.a.id, e.a.id, e.a.id>>
    [] e.op = "Expand"               -> ExpandImpl(e.a.id)
    [] e.op = "VoxelID"              -> <<e.a.id[2], e.a.id[3], e.a.id[5]>>
    [] e.op = "Volume"               -> [n |-> ZoomCountOne(e.a.top, e.a.h, e.a.v), distinct |-> "all"]
    [] e.op = "MergeExt"             -> Exp_MergeExt(e)
    [] e.op = "MergeSp"              -> Exp_MergeSp(e)
    [] e.op = "MergeSteps"           -> Exp_MergeSteps(e)
    [] e.op = "Higher"               -> <<Higher(e.a.id, e.a.dh, e.a.dv)>>
    [] e.op = "RegHistory"           -> RegRun(e.a.init, e.a.ops)
    [] e.op \in {"OverlapExt", "OverlapExtArr"} -> Exp_OverlapExt(e)
    [] e.op \in {"OverlapSp", "OverlapSpArr"}   -> Exp_OverlapSp(e)
    [] e.op = "PointsExt"            -> Exp_PointsExt(e)
    [] e.op = "PointsSp"             -> Exp_PointsSp(e)
    [] e.op = "PointNudge"           -> [xs |-> NudgeXs(e.a.p, e.a.du, e.a.edge, e.a.h, e.w.abs), y |-> PointY(e.a.p, e.a.h), f |-> NudgeF(e.a.p, e.a.da, e.a.v)]
    [] e.op = "PointInVoxel"         -> "west <= lon < east, south < lat <= north, bottom <= alt < top"
    [] e.op \in {"VertexExt", "VertexSp"} -> Vertices(e.a.id)
    [] e.op \in {"CentreExt", "CentreSp"} -> [cu |-> CentreU(e.a.id), ca |-> CentreA(e.a.id), back |-> <<e.a.id>>]
    [] e.op = "Face"                 -> "shared corners must be bit-identical"
    [] e.op = "Hier"                 -> "coarse = zoomed = ancestor(fine), overlapping"
    [] e.op \in {"ExtToQK", "SpToQK"} -> Exp_ExtToQK(e)
    [] e.op \in {"QKToExt", "QKToSp"} -> Exp_QKToExt(e)
    [] e.op = "ZToKey"               -> Band_ZToKey(e)
    [] e.op = "KeyToZ"               -> Band_KeyToZ(e)
    [] e.op = "ExtToQKAlt"           -> IF \E i \in 1..Len(e.a.per) : e.a.per[i][1] # "ok" THEN "error, no partial result"
                                        ELSE Exp_ExtToQKAlt(e)
    [] e.op = "TilesToExt"           -> IF TilesValid(e) THEN Exp_TilesToExt(e) ELSE "error, no partial result"
    [] e.op = "TilesToSp"            -> IF TilesValid(e) THEN Exp_TilesToSp(e) ELSE "error, no partial result"
    [] e.op = "BitFwd"               -> Exp_BitFwd(e)
    [] e.op = "BitFwdList"           -> Exp_BitFwdList(e)
    [] e.op = "BitFwdFree"           -> [cells |-> {p[2] : p \in AllPairs(e.r)}, lenLo |-> e.a.lenLo, lenHi |-> e.a.lenHi, midLo |-> e.a.midLo, midHi |-> e.a.midHi]
    [] e.op = "BitBack"              -> Exp_BitBack(e)
    [] e.op = "BitBackList"          -> UNION {BitBackOne(e.a.keys[i], e.a.hz, e.a.ovz, e.a.S, e.a.mn, e.a.mx) : i \in 1..Len(e.a.keys)}
    [] e.op = "BitFwdHi"             -> Exp_BitFwdHi(e)
    [] e.op = "BitBackHi"            -> Exp_BitBackHi(e)
    [] e.op \in {"Line", "LineSp"}   -> [walkEnd |-> WalkEnd(e.a.moves),
                                         notTouched |-> Range(e.r) \ Touched(e.a.moves),
                                         reachable |-> Cardinality(Reachable(Range(e.r), <<0, 0, 0>>))]
    [] e.op = "LineAxis"             -> [n |-> e.a.n, axis |-> e.a.axis, len |-> Len(e.r), missing |-> AxisRun(e.a.axis, e.a.n) \ Range(e.r),
                                         extra |-> Range(e.r) \ AxisRun(e.a.axis, e.a.n)]
    [] e.op = "LineTouch"            -> "no duplicates; every returned voxel meets the segment"
    [] e.op = "LineAxisCount"        -> [entries |-> MaxOf(0, e.a.n) - MinOf(0, e.a.n) + 1, lo |-> MinOf(0, e.a.n), hi |-> MaxOf(0, e.a.n), offaxis |-> 0]
    [] e.op = "LineLong"             -> [len |-> Len(e.r), off |-> Len(e.a.off), hasEnds |-> <<0, 0, 0>> \in Range(e.r) /\ e.a.end \in Range(e.r),
                                         breaks |-> Cardinality({i \in 2..Len(e.r) : ~\E j \in MaxOf(1, i - 3)..(i - 1) : Adj26(e.r[i], e.r[j])})]
    [] e.op = "CorridorAxis"         -> [lineMissing |-> AxisRun(e.a.axis, e.a.n) \ Range(e.r.rm),
                                         outsideBox |-> Cardinality({p \in Range(e.r.rs) : ~InAxisBox(p, e.a.axis, e.a.n, e.a.fitH, e.a.fitV)})]
    [] e.op = "Corridor"             -> [measuredNotInSkipped |-> Range(e.r.rm) \ Range(e.r.rs),
                                         lineMissing |-> Range(e.a.L) \ Range(e.r.rm),
                                         outsideBox |-> {p \in Range(e.r.rs) \ Range(e.a.L) :
                                                          ~WithinLayers(p, Range(e.a.L), e.a.fitH, e.a.fitV, e.a.mod)},
                                         far |-> e.a.far]
    [] e.op = "CorridorInvalid"      -> "error"
    [] e.op = "Fit"                  -> "each layer count L: c <= gaps[L+1] (+tol); monotone in c; (0, 0) for clearance 0"
    [] e.op = "Determ"               -> [differing |-> {e.a.labels[i] : i \in {j \in 1..Len(e.r) : SetOfSeq(e.r[j]) # SetOfSeq(e.r[1])}},
                                         duplicates |-> {e.a.labels[i] : i \in {j \in 1..Len(e.r) : ~DupFree(e.r[j])}}]
    [] e.op = "Invalid"              -> [refused |-> Refused(FnByName(e.a.fn), e.a.cv), kind |-> FnByName(e.a.fn).kind]
    [] e.op = "PointStore"           -> "lon/alt unchanged, 0 <= cut < 1e-10 deg toward zero"
    [] e.op = "ArithShift"           -> ShiftPair(e.a.m, e.a.k, e.a.s)
    [] e.op = "Combinations"         -> Combinations(e.a.n, e.a.k)
    [] e.op = "Vector"               -> [add |-> VAdd(e.a.u, e.a.v), cross |-> VCross(e.a.u, e.a.v), dot |-> VDot(e.a.u, e.a.v)]
    [] e.op = "Matrix"               -> [ab |-> MMul(e.a.A, e.a.B)]
    [] e.op \in {"SetOps", "MaxMin", "Line3", "Quat"} -> "helper law"
    [] e.op = "Project"              -> "Mercator within 1e-6 m, round trip within 2e-10 deg, altitude and list structure kept; unknown code = error"
    [] e.op = "Conc"                 -> "the result of the call executed alone"
    [] e.op \in {"CheckZoom", "ErrorValue", "Objects", "Point3", "Angles"} -> "see X_" \o e.op
    [] e.op = "ObjHistory"           -> ObjRun(ObjInit, e.a.ops)
    [] e.op \in MachineOps          -> "next working set (see MachineNext); previous state is the previous line's ws"
    [] e.op = "Law"                  -> "both sides of the law must be equal"
    [] OTHER -> "no-spec-operator"

\* ---- recorded deviations (known findings) -----------------------------------
KnownDeviation(e) ==
  IF e.op \in {"Line", "LineSp"} /\ e.bad = "" /\ Ok(e)
     /\ LineAcceptRetruncated(e.r, e.a.moves, e.a.end, e.a.retr) THEN "D11"
  ELSE IF e.op = "Project"
     /\ ProjectHighAltitude(e.a.known, e.a.code, e.a.maxalt, Ok(e), e.a.n, e.r.n, e.r.alt, e.r.backok, e.r.bn, e.r.balt) THEN "D12"
  ELSE IF e.op = "PointStore" /\ Ok(e)
     /\ PointStoreWholeStep(e.r.lon, e.r.alt, e.r.toward, e.r.cut, e.r.ongrid) THEN "D11"
  ELSE ""

\* ---- machine events (histories): SpatialMachine's actions on recorded state ----
\* e.a.ws = the real working set after the step; ws = the recorded set before it.
IsMachineOp(e) == e.op \in MachineOps
MachineLogged(e) == SetOfSeq(e.a.ws)
MachineNext(e, ws) ==          \* the specification's action
  CASE e.op = "M.Reset"       -> SetOfSeq(e.a.ws)
    [] e.op = "M.ChangeZoom"  -> ChangeZoom(ws, e.a.h, e.a.v)
    [] e.op = "M.Merge"       -> MergeImpl(ws, e.a.h, e.a.v)
    [] e.op = "M.Shift"       -> {Shift(s, e.a.dx, e.a.dy, e.a.dv, e.w.abs) : s \in ws}
    [] e.op = "M.NLayer"      -> NLayer(ws, e.a.hl, e.a.vl, e.w.abs)
    [] e.op = "M.Lookup"      -> ws \cup {PointToVoxel(e.a.p, e.a.h, e.a.v, e.w.abs)}
    [] e.op = "M.Expand"      -> UNION {{SpToExt(t) : t \in ExpandImpl(s)} : s \in ws}   \* to single-zoom IDs and back to extended form
    [] e.op = "M.Higher"      -> {Higher(s, MinOf(e.a.dh, s[1]), MinOf(e.a.dv, s[4])) : s \in ws}
    [] e.op = "M.Around"      -> ws \cup SetOfSeq(IF e.a.k = 6 THEN N6(e.a.c, e.w.abs)
                                                  ELSE IF e.a.k = 8 THEN N8(e.a.c, e.w.abs) ELSE N26(e.a.c, e.w.abs))
    [] e.op \in {"M.Overlap", "M.Reparse", "M.KeyRoundTrip", "M.SpRoundTrip"} -> ws      \* queries / round trips leave it unchanged
MachineExplains(e, ws) ==
  /\ e.bad = "" /\ Ok(e)
  /\ SetOfSeq(e.a.ws) = MachineNext(e, ws)
  /\ (e.op \in {"M.ChangeZoom", "M.Merge", "M.NLayer"} => e.a.n = Cardinality(MachineNext(e, ws)))  \* returned without duplicates
  /\ (e.op = "M.Overlap" => e.r = <<OverlapArr(ws, {e.a.b})>>)
  /\ (e.op = "M.Lookup" => LatDecidedReal(e.a.p, e.a.h, RealH(e, e.a.h)))
  /\ (e.op = "M.Around" => e.a.c \in ws)
=============================================================================
