------------------------------- MODULE TraceOps -------------------------------
(***************************************************************************)
(* One "Explains" clause per recorded operation: the binding between the   *)
(* specification's operators and the events the harness records.           *)
(* Event fields: op, w (window: abs, H0, V0), a (arguments), o (outcome:   *)
(* "ok" / "err" / "panic"), r (result, projected).                         *)
(***************************************************************************)
EXTENDS Neighbour

\* ---- generic helpers ------------------------------------------------------
IsSeq(x) == x = <<>> \/ DOMAIN x = 1..Len(x)     \* used only on values known to be lists
SetOfSeq(s) == {s[i] : i \in 1..Len(s)}
DupFree(s) == Cardinality(SetOfSeq(s)) = Len(s)

\* real zoom of a model zoom
RealH(e, h) == e.w.H0 + h
RealV(e, v) == e.w.V0 + v
ZoomOk(z) == 0 <= z /\ z <= 35

\* a duplicate-free list that, as a set, equals S
ListIsSet(r, S) == DupFree(r) /\ SetOfSeq(r) = S

Ok(e) == e.o = "ok"
Err(e) == e.o = "err"

\* ---- C03 ------------------------------------------------------------------
Exp_ChangeZoomExt(e) == ChangeZoom(SetOfSeq(e.a.ids), e.a.h, e.a.v)
X_ChangeZoomExt(e) ==
  IF ZoomOk(RealH(e, e.a.h)) /\ ZoomOk(RealV(e, e.a.v))
  THEN Ok(e) /\ e.a.kept /\ ListIsSet(e.r, Exp_ChangeZoomExt(e))
  ELSE Err(e) /\ e.r = <<>>

Exp_ChangeZoomSp(e) ==
  {ExtToSp(t) : t \in ChangeZoom({SpToExt(s) : s \in SetOfSeq(e.a.ids)}, e.a.z, e.a.z)}
X_ChangeZoomSp(e) ==
  IF ZoomOk(RealH(e, e.a.z))
  THEN Ok(e) /\ e.a.kept /\ ListIsSet(e.r, Exp_ChangeZoomSp(e))
  ELSE Err(e) /\ e.r = <<>>

X_HorizontalZoom(e) == Ok(e) /\ e.r = HorizontalZoomSeq(e.a.zi, e.a.x, e.a.y, e.a.zo)
X_HorizontalZoomMinMax(e) == Ok(e) /\ e.r = HorizontalZoomMinMax(e.a.zi, e.a.x, e.a.y, e.a.zo)
X_VerticalZoom(e) == Ok(e) /\ e.r = VerticalZoomSeq(e.a.zi, e.a.f, e.a.zo)

\* ---- dispatch -------------------------------------------------------------
Explains(e) ==
  /\ e.bad = ""
  /\ CASE e.op = "ChangeZoomExt"        -> X_ChangeZoomExt(e)
      [] e.op = "ChangeZoomSp"         -> X_ChangeZoomSp(e)
      [] e.op = "HorizontalZoom"       -> X_HorizontalZoom(e)
      [] e.op = "HorizontalZoomMinMax" -> X_HorizontalZoomMinMax(e)
      [] e.op = "VerticalZoom"         -> X_VerticalZoom(e)
      [] OTHER -> FALSE

\* what the specification expected (diagnostics for a rejected line)
Expected(e) ==
  CASE e.op = "ChangeZoomExt"        -> Exp_ChangeZoomExt(e)
    [] e.op = "ChangeZoomSp"         -> Exp_ChangeZoomSp(e)
    [] e.op = "HorizontalZoom"       -> HorizontalZoomSeq(e.a.zi, e.a.x, e.a.y, e.a.zo)
    [] e.op = "HorizontalZoomMinMax" -> HorizontalZoomMinMax(e.a.zi, e.a.x, e.a.y, e.a.zo)
    [] e.op = "VerticalZoom"         -> VerticalZoomSeq(e.a.zi, e.a.f, e.a.zo)
    [] OTHER -> "no-spec-operator"

\* ---- machine events (histories) -------------------------------------------
IsMachineOp(e) == FALSE
MachineLogged(e) == {}
MachineExplains(e, ws) == FALSE
=============================================================================
