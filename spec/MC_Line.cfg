SPECIFICATION Spec
CONSTANTS NX = 2 NY = 2 NF = 1
INVARIANTS WalkEndsAtEnd TouchedBounds TouchedConnected TouchedAcceptsItself
CHECK_DEADLOCK FALSE
