SPECIFICATION Spec
CONSTANTS
  M = 2
  InitSets <- InitEmpty
  Points <- AllPoints
  ShiftOffsets <- NoShifts
  MaxLayers = 0
  Ops = {"Lookup"}
  MaxDepth = 1
  MaxWs = 1000
INVARIANTS C01_CellStandsForItsPoints C01_Contains C09_LookupNested

CHECK_DEADLOCK FALSE
