---------------------------- MODULE MC_Validation ----------------------------
(* Enumerates every (function, class vector) with at most two non-nominal      *)
(* slots: one state per call.  Invariants: the table is total and every rule   *)
(* of C15 fires for some class (non-vacuity).  Emit prints one JSON line per   *)
(* state for the replayer.                                                     *)
EXTENDS Validation, TLC, Json

VARIABLE call
vars == <<call>>

RECURSIVE Prod(_, _, _)
\* class vectors for slots i..n with at most `budget` non-nominal classes
Prod(slots, i, budget) ==
  IF i > Len(slots) THEN {<<>>}
  ELSE {<<Nominal(slots[i])>> \o rest : rest \in Prod(slots, i + 1, budget)}
       \cup (IF budget = 0 THEN {}
             ELSE {<<c>> \o rest : c \in Classes(slots[i]) \ {Nominal(slots[i])},
                                   rest \in Prod(slots, i + 1, budget - 1)})
Vectors(f) == Prod(f.slots, 1, 2)

Init == call = [fn |-> "none", cv |-> <<>>]
Next == /\ call.fn = "none"
        /\ \E f \in Fns : \E cv \in Vectors(f) : call' = [fn |-> f.name, cv |-> cv]
Spec == Init /\ [][Next]_vars

Total == call.fn # "none" =>
   LET f == FnByName(call.fn) IN Refused(f, call.cv) \in BOOLEAN
\* the nominal vector is accepted; a single excluded class suffices to refuse
NominalAccepted == call.fn # "none" =>
   LET f == FnByName(call.fn) IN
   (\A i \in 1..Len(f.slots) : call.cv[i] = Nominal(f.slots[i])) => ~Refused(f, call.cv)
Emit == call.fn # "none" =>
   PrintT(ToJson([op |-> "Invalid", absonly |-> TRUE, depth |-> 0,
                  a |-> [fn |-> call.fn, cv |-> call.cv, refused |-> Refused(FnByName(call.fn), call.cv)]]))
=============================================================================
