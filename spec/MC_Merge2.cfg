SPECIFICATION Spec
CONSTANTS
  M = 2
  InitSets <- InitMergeSmall
  Points <- NoPoints
  ShiftOffsets <- NoShifts
  MaxLayers = 0
  Ops = {"Merge"}
  MaxDepth = 2
  MaxWs = 1000
INVARIANTS C04_StepsAssemble C04_RegionPreserved C04_Exact C04_Idempotent
PROPERTIES C04_SecondMergeStutters
CHECK_DEADLOCK FALSE
