SPECIFICATION Spec
CONSTANTS
  M = 3
  InitSets <- InitSingletons
  Points <- NoPoints
  ShiftOffsets <- NoShifts
  MaxLayers = 0
  Ops = {"Overlap"}
  MaxDepth = 1
  MaxWs = 1000
INVARIANTS C05_Exact C05_Symmetric C05_Reflexive

CHECK_DEADLOCK FALSE
