-------------------------------- MODULE Helpers --------------------------------
(***************************************************************************)
(* C20: the exported helper algebra (common/util.go and the common/spatial package).    *)
(* TLA+ sets, integers and sequences are the reference.  Vectors and       *)
(* matrices have small integer components, so float64 arithmetic is exact  *)
(* and the integer formulas below are the exact oracle.                    *)
(***************************************************************************)
EXTENDS Dyadic

\* ---- set helpers on sequences ---------------------------------------------
UnionOk(r, x, y) == Range(r) = Range(x) \cup Range(y) /\ NoDup(r)
IntersectOk(r, x, y) == Range(r) = Range(x) \cap Range(y)
DifferenceOk(r, x, y) == Range(r) = Range(x) \ Range(y)
UniqueOk(r, x) == Range(r) = Range(x) /\ NoDup(r)
IncludeOk(b, x, t) == b = (t \in Range(x))

\* ---- max / min ------------------------------------------------------------
MaxOk(m, isErr, xs) == IF xs = <<>> THEN isErr
                       ELSE ~isErr /\ m \in Range(xs) /\ \A e \in Range(xs) : e <= m
MinOk(m, isErr, xs) == IF xs = <<>> THEN isErr
                       ELSE ~isErr /\ m \in Range(xs) /\ \A e \in Range(xs) : m <= e

\* ---- signed arithmetic shift on (mantissa, exponent) pairs -----------------
\* the value m * 2^k with m odd (or zero with k = 0)
RECURSIVE Normalize(_, _)
Normalize(m, k) == IF m = 0 THEN <<0, 0>> ELSE IF m % 2 = 0 THEN Normalize(m \div 2, k + 1) ELSE <<m, k>>
\* floor((m * 2^k) * 2^s)
ShiftPair(m, k, s) == IF k + s >= 0 THEN Normalize(m, k + s) ELSE Normalize(FloorDivPow2(m, -(k + s)), 0)

\* ---- combinations in lexicographic order -----------------------------------
RECURSIVE CombFrom(_, _, _)
\* all increasing sequences of length k over lo..(n-1), lexicographically ordered
CombFrom(lo, n, k) ==
  IF k = 0 THEN << <<>> >>
  ELSE IF lo > n - k THEN <<>>
  ELSE LET withLo == CombFrom(lo + 1, n, k - 1)
       IN  [i \in 1..Len(withLo) |-> <<lo>> \o withLo[i]] \o CombFrom(lo + 1, n, k)
Combinations(n, k) == CombFrom(0, n, k)

\* ---- integer vector / matrix algebra ---------------------------------------
VAdd(a, b) == <<a[1] + b[1], a[2] + b[2], a[3] + b[3]>>
VSub(a, b) == <<a[1] - b[1], a[2] - b[2], a[3] - b[3]>>
VScale(a, s) == <<a[1] * s, a[2] * s, a[3] * s>>
VDot(a, b) == a[1] * b[1] + a[2] * b[2] + a[3] * b[3]
VCross(a, b) == <<a[2] * b[3] - a[3] * b[2], a[3] * b[1] - a[1] * b[3], a[1] * b[2] - a[2] * b[1]>>
VL1(a) == Abs(a[1]) + Abs(a[2]) + Abs(a[3])
\* 3x3 matrices as row-major 9-tuples
MAt(m, i, j) == m[3 * (i - 1) + j]
MMul(a, b) == [n \in 1..9 |-> LET i == ((n - 1) \div 3) + 1  j == ((n - 1) % 3) + 1 IN
                 MAt(a, i, 1) * MAt(b, 1, j) + MAt(a, i, 2) * MAt(b, 2, j) + MAt(a, i, 3) * MAt(b, 3, j)]
MVec(m, v) == [i \in 1..3 |-> MAt(m, i, 1) * v[1] + MAt(m, i, 2) * v[2] + MAt(m, i, 3) * v[3]]

\* ---- the rest of the exported surface (Misc) ----------------------------------
CheckZoomOk(b, z) == b = (0 <= z /\ z <= 35)
\* point helpers on integer points: extreme points along a direction, unique append, closeness
Dot3(p, d) == p[1] * d[1] + p[2] * d[2] + p[3] * d[3]
MaxPointOk(m, isErr, pts, d) == IF pts = <<>> THEN isErr
   ELSE ~isErr /\ m \in Range(pts) /\ \A q \in Range(pts) : Dot3(q, d) <= Dot3(m, d)
MinPointOk(m, isErr, pts, d) == IF pts = <<>> THEN isErr
   ELSE ~isErr /\ m \in Range(pts) /\ \A q \in Range(pts) : Dot3(m, d) <= Dot3(q, d)
Close3(p, q, eps) == Abs(p[1] - q[1]) <= eps /\ Abs(p[2] - q[2]) <= eps /\ Abs(p[3] - q[3]) <= eps
UniqueAppendOk(appended, pts, a, eps) == appended = (IF \E q \in Range(pts) : Close3(q, a, eps) THEN 0 ELSE 1)
Dist2(p, q) == (p[1] - q[1]) * (p[1] - q[1]) + (p[2] - q[2]) * (p[2] - q[2]) + (p[3] - q[3]) * (p[3] - q[3])

\* ---- data objects as state machines ---------------------------------------------
\* state = <<h, x, y, v, f, th, tx, ty, tv, tz>> (an ExtendedSpatialID and a TileXYZ); one setter per step.
\* A tile zoom setter outside 0..35 is an error and leaves the zoom unchanged.
ObjInit == <<0, 0, 0, 0, 0, 0, 0, 0, 0, 0>>
ZoomInRange(z) == 0 <= z /\ z <= 35
ObjStep(s, op) ==
  CASE op[1] = "reset"   -> <<op[2], op[3], op[4], op[5], op[6], s[6], s[7], s[8], s[9], s[10]>>
    [] op[1] = "setx"    -> [s EXCEPT ![2] = op[2]]
    [] op[1] = "sety"    -> [s EXCEPT ![3] = op[2]]
    [] op[1] = "setz"    -> [s EXCEPT ![5] = op[2]]
    [] op[1] = "setzoom" -> [s EXCEPT ![1] = op[2], ![4] = op[3]]
    [] op[1] = "tileh"   -> [s EXCEPT ![6] = IF ZoomInRange(op[2]) THEN op[2] ELSE @, ![7] = op[3]]
    [] op[1] = "tilev"   -> [s EXCEPT ![9] = IF ZoomInRange(op[2]) THEN op[2] ELSE @, ![8] = op[3], ![10] = op[4]]
RECURSIVE ObjRun(_, _)
\* the sequence of states observed after each operation
ObjRun(s, ops) == IF ops = <<>> THEN <<>>
                  ELSE LET s2 == ObjStep(s, Head(ops)) IN <<s2>> \o ObjRun(s2, Tail(ops))
\* plain records of registers (QuadkeyAndVerticalID, the two conversion-parameter
\* objects): a setter writes its own slot and nothing else, a getter reads its own slot
RECURSIVE RegRun(_, _)
RegRun(s, ops) == IF ops = <<>> THEN <<>>
                  ELSE LET s2 == [s EXCEPT ![Head(ops)[1]] = Head(ops)[2]] IN <<s2>> \o RegRun(s2, Tail(ops))
=============================================================================
