SPECIFICATION Spec
CONSTANTS
  M = 2
  InitSets <- InitSingletons
  Points <- GenPoints
  ShiftOffsets <- SmallShifts
  MaxLayers = 1
  Ops = {"Lookup", "ChangeZoom", "Merge", "Shift", "NLayer"}
  MaxDepth = 4
  MaxWs = 40
INVARIANTS Emit C03_Exact C04_RegionPreserved C04_Exact C05_Exact C07_InRange
CONSTRAINT Bounded
CHECK_DEADLOCK FALSE
