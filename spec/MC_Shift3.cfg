SPECIFICATION Spec
CONSTANTS
  M = 3
  InitSets <- InitSingletons
  Points <- NoPoints
  ShiftOffsets <- WideShifts
  MaxLayers = 0
  Ops = {"Shift"}
  MaxDepth = 1
  MaxWs = 1000
INVARIANTS C07_InRange C07_Bijective C07_Inverse
PROPERTIES C07_ZeroIsIdentity
CHECK_DEADLOCK FALSE
