------------------------------ MODULE MC_Determ ------------------------------
(***************************************************************************)
(* C16 at design level.  Go randomises map iteration order: every slice    *)
(* the library builds from a map is modelled as the set's elements in an   *)
(* ARBITRARY order (`perm`), and the caller's input list as an arbitrary   *)
(* arrangement with repetitions (`inp`).  The machine performs one         *)
(* set-valued call; the invariant says its result set is a function of the *)
(* input SET alone.  The corridor action is written the way the code is:   *)
(* search box sized from the line's voxels - from all of them (as          *)
(* repaired), or from the first of the map-built list (deviation D10,      *)
(* CorridorFirstOfMap), which TLC refutes with a two-state counterexample. *)
(***************************************************************************)
EXTENDS Dyadic, TLC, SequencesExt

CONSTANTS Vox,        \* a small set of voxel names (model values or integers)
          UseFirstOfMap   \* TRUE = the D10 deviation

VARIABLES inp, perm, res, op
vars == <<inp, perm, res, op>>

\* layer fit per voxel: differs along the line (voxels shrink towards the poles)
Fit(v) == IF v = SetMin(Vox) THEN 0 ELSE 1
\* the "neighbourhood" of v within k layers, on a line of integers
Around(v, k) == (v - k)..(v + k)

Arrangements(S) == {s \in UNION {[1..n -> S] : n \in Cardinality(S)..(Cardinality(S) + 1)} : Range(s) = S}
Orders(S) == {s \in [1..Cardinality(S) -> S] : Range(s) = S}

Init == /\ inp \in UNION {Arrangements(S) : S \in (SUBSET Vox) \ {{}}}
        /\ perm \in Orders(Range(inp))          \* the order the map happens to yield
        /\ res = {} /\ op = "none"

\* Unique: the set, in map order
DoUnique == /\ op = "none" /\ op' = "Unique"
            /\ res' = Range(perm)
            /\ UNCHANGED <<inp, perm>>

\* corridor: line = Unique(inp) in map order; box sized from the line
DoCorridor ==
  /\ op = "none" /\ op' = "Corridor"
  /\ LET line == perm
         k == IF UseFirstOfMap THEN Fit(line[1])
              ELSE SetMax({Fit(line[i]) : i \in 1..Len(line)})
     IN  res' = UNION {Around(line[i], k) : i \in 1..Len(line)}
  /\ UNCHANGED <<inp, perm>>

Next == DoUnique \/ DoCorridor
Spec == Init /\ [][Next]_vars

\* the result the call must have, as a function of the input SET only
Expected(o, S) == IF o = "Unique" THEN S
                  ELSE UNION {Around(v, SetMax({Fit(u) : u \in S})) : v \in S}
ResultDependsOnInputSetOnly == op # "none" => res = Expected(op, Range(inp))
InputUntouched == [][inp' = inp]_vars
=============================================================================
