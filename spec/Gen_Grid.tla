------------------------------- MODULE Gen_Grid -------------------------------
(* Generator: every step TLC explores in a small-world configuration of        *)
(* SpatialMachine is printed as one JSON line {op, a, depth}; the Go replayer  *)
(* performs it on the real code in absolute coordinates and embedded into      *)
(* windows of the real grid, and Trace.tla validates what the code returned.   *)
EXTENDS MC_Grid, Json

GenStep ==
  CASE last.op = "ChangeZoom" ->
         [op |-> "G.ChangeZoom", depth |-> M,
          a |-> [ids |-> last.pre, h |-> last.a[1], v |-> last.a[2]]]
    [] last.op = "Merge" ->
         [op |-> "G.Merge", depth |-> M,
          a |-> [ids |-> last.pre, h |-> last.a[1], v |-> last.a[2]]]
    [] last.op = "Overlap" ->
         [op |-> "G.Overlap", depth |-> M, a |-> [ids |-> last.pre, b |-> last.a]]
    [] last.op = "Shift" ->
         [op |-> "G.Shift", depth |-> M,
          a |-> [ids |-> last.pre, dx |-> last.a[1], dy |-> last.a[2], dv |-> last.a[3]]]
    [] last.op = "NLayer" ->
         [op |-> "G.NLayer", depth |-> M,
          a |-> [ids |-> last.pre, hl |-> last.a[1], vl |-> last.a[2]]]
    [] last.op = "Lookup" ->
         [op |-> "G.Lookup", depth |-> M,
          a |-> [p |-> last.a[1], h |-> last.a[2], v |-> last.a[3]]]
    [] last.op = "Around" ->
         [op |-> "G.Around", depth |-> M, a |-> [id |-> last.a[1], k |-> last.a[2]]]
    [] last.op = "Higher" ->
         [op |-> "G.Higher", depth |-> M, a |-> [ids |-> last.pre, dh |-> last.a[1], dv |-> last.a[2]]]
    [] last.op = "Notation" ->
         [op |-> "G.Notation", depth |-> M, a |-> [id |-> last.a]]
    [] last.op = "Geom" ->
         [op |-> "G.Geom", depth |-> M, a |-> [id |-> last.a]]
    [] OTHER -> [op |-> "none", depth |-> M, a |-> <<>>]

Emit == (depth > 0) => PrintT(ToJson(GenStep))
=============================================================================
