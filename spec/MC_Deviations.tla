---------------------------- MODULE MC_Deviations ----------------------------
(* Non-vacuity at design level: each repaired deviation of Deviations.tla must   *)
(* be DISTINGUISHABLE from the specification inside the small model, i.e. TLC   *)
(* must refute the invariant claiming they agree (selftest/deviations expects    *)
(* a counterexample for every Dev_*.cfg).                                        *)
EXTENDS GridDef, Deviations, Keys, TLC

VARIABLE s        \* a voxel of the small world, a target zoom pair, an offset
Init == s \in {<<v, h2, v2, o>> : v \in AllVox, h2 \in Zooms, v2 \in Zooms, o \in {0, 1, 3}}
Next == UNCHANGED s
Spec == Init /\ [][Next]_s

Vx == s[1]
\* D1: truncating vertical zoom-out agrees with the floor version (refuted for f < 0)
D1_Agrees == VerticalZoomMinMaxTrunc(Vx[4], Vx[5], s[3]) = VerticalZoomMinMax(Vx[4], Vx[5], s[3])
\* D2: truncating Higher agrees with Ancestor
D2_Agrees == (s[2] <= Vx[1] /\ s[3] <= Vx[4]) => AncestorTrunc(Vx, s[2], s[3]) = Ancestor(Vx, s[2], s[3])
\* D3: the metre-resolution tree index agrees with the exact one (refuted above zoom 25: checked at shifted zooms)
D3_Agrees == LET z == 24 + Vx[4]  f == Vx[5] IN TreeIndexMetre(f, z) = TreeIndexExact(f, z)
\* D6: floor upper bound agrees with the exact maximum key
D6_Agrees == LET zi == 23 + Vx[4]  f == Vx[5] IN
             ZToKeyMaxFloor(f, zi, 23 + s[3], 25, s[4]) = ZK_XMax(f, zi, 23 + s[3], 25, s[4])
=============================================================================
