SPECIFICATION Spec
INVARIANTS CombLaw ShiftLaw MatLaw
CHECK_DEADLOCK FALSE
