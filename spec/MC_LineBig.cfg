SPECIFICATION Spec
CONSTANTS NX = 3 NY = 2 NF = 2
INVARIANTS WalkEndsAtEnd TouchedBounds TouchedConnected TouchedAcceptsItself
CHECK_DEADLOCK FALSE
