---- MODULE Trace_TTrace_1790560789 ----
EXTENDS Trace, Sequences, TLCExt, Toolbox, Naturals, TLC

_expression ==
    LET Trace_TEExpression == INSTANCE Trace_TEExpression
    IN Trace_TEExpression!expression
----

_trace ==
    LET Trace_TETrace == INSTANCE Trace_TETrace
    IN Trace_TETrace!trace
----

_inv ==
    ~(
        TLCGet("level") = Len(_TETrace)
        /\
        l = (62)
        /\
        ws = ({})
    )
----

_init ==
    /\ l = _TETrace[1].l
    /\ ws = _TETrace[1].ws
----

_next ==
    /\ \E i,j \in DOMAIN _TETrace:
        /\ \/ /\ j = i + 1
              /\ i = TLCGet("level")
        /\ l  = _TETrace[i].l
        /\ l' = _TETrace[j].l
        /\ ws  = _TETrace[i].ws
        /\ ws' = _TETrace[j].ws

\* Uncomment the ASSUME below to write the states of the error trace
\* to the given file in Json format. Note that you can pass any tuple
\* to `JsonSerialize`. For example, a sub-sequence of _TETrace.
    \* ASSUME
    \*     LET J == INSTANCE Json
    \*         IN J!JsonSerialize("Trace_TTrace_1790560789.json", _TETrace)

=============================================================================

 Note that you can extract this module `Trace_TEExpression`
  to a dedicated file to reuse `expression` (the module in the 
  dedicated `Trace_TEExpression.tla` file takes precedence 
  over the module `Trace_TEExpression` below).

---- MODULE Trace_TEExpression ----
EXTENDS Trace, Sequences, TLCExt, Toolbox, Naturals, TLC

expression == 
    [
        \* To hide variables of the `Trace` spec from the error trace,
        \* remove the variables below.  The trace will be written in the order
        \* of the fields of this record.
        l |-> l
        ,ws |-> ws
        
        \* Put additional constant-, state-, and action-level expressions here:
        \* ,_stateNumber |-> _TEPosition
        \* ,_lUnchanged |-> l = l'
        
        \* Format the `l` variable as Json value.
        \* ,_lJson |->
        \*     LET J == INSTANCE Json
        \*     IN J!ToJson(l)
        
        \* Lastly, you may build expressions over arbitrary sets of states by
        \* leveraging the _TETrace operator.  For example, this is how to
        \* count the number of times a spec variable changed up to the current
        \* state in the trace.
        \* ,_lModCount |->
        \*     LET F[s \in DOMAIN _TETrace] ==
        \*         IF s = 1 THEN 0
        \*         ELSE IF _TETrace[s].l # _TETrace[s-1].l
        \*             THEN 1 + F[s-1] ELSE F[s-1]
        \*     IN F[_TEPosition - 1]
    ]

=============================================================================



Parsing and semantic processing can take forever if the trace below is long.
 In this case, it is advised to uncomment the module below to deserialize the
 trace from a generated binary file.

\*
\*---- MODULE Trace_TETrace ----
\*EXTENDS Trace, IOUtils, TLC
\*
\*trace == IODeserialize("Trace_TTrace_1790560789.bin", TRUE)
\*
\*=============================================================================
\*

---- MODULE Trace_TETrace ----
EXTENDS Trace, TLC

trace == 
    <<
    ([l |-> 1,ws |-> {}]),
    ([l |-> 2,ws |-> {}]),
    ([l |-> 3,ws |-> {}]),
    ([l |-> 4,ws |-> {}]),
    ([l |-> 5,ws |-> {}]),
    ([l |-> 6,ws |-> {}]),
    ([l |-> 7,ws |-> {}]),
    ([l |-> 8,ws |-> {}]),
    ([l |-> 9,ws |-> {}]),
    ([l |-> 10,ws |-> {}]),
    ([l |-> 11,ws |-> {}]),
    ([l |-> 12,ws |-> {}]),
    ([l |-> 13,ws |-> {}]),
    ([l |-> 14,ws |-> {}]),
    ([l |-> 15,ws |-> {}]),
    ([l |-> 16,ws |-> {}]),
    ([l |-> 17,ws |-> {}]),
    ([l |-> 18,ws |-> {}]),
    ([l |-> 19,ws |-> {}]),
    ([l |-> 20,ws |-> {}]),
    ([l |-> 21,ws |-> {}]),
    ([l |-> 22,ws |-> {}]),
    ([l |-> 23,ws |-> {}]),
    ([l |-> 24,ws |-> {}]),
    ([l |-> 25,ws |-> {}]),
    ([l |-> 26,ws |-> {}]),
    ([l |-> 27,ws |-> {}]),
    ([l |-> 28,ws |-> {}]),
    ([l |-> 29,ws |-> {}]),
    ([l |-> 30,ws |-> {}]),
    ([l |-> 31,ws |-> {}]),
    ([l |-> 32,ws |-> {}]),
    ([l |-> 33,ws |-> {}]),
    ([l |-> 34,ws |-> {}]),
    ([l |-> 35,ws |-> {}]),
    ([l |-> 36,ws |-> {}]),
    ([l |-> 37,ws |-> {}]),
    ([l |-> 38,ws |-> {}]),
    ([l |-> 39,ws |-> {}]),
    ([l |-> 40,ws |-> {}]),
    ([l |-> 41,ws |-> {}]),
    ([l |-> 42,ws |-> {}]),
    ([l |-> 43,ws |-> {}]),
    ([l |-> 44,ws |-> {}]),
    ([l |-> 45,ws |-> {}]),
    ([l |-> 46,ws |-> {}]),
    ([l |-> 47,ws |-> {}]),
    ([l |-> 48,ws |-> {}]),
    ([l |-> 49,ws |-> {}]),
    ([l |-> 50,ws |-> {}]),
    ([l |-> 51,ws |-> {}]),
    ([l |-> 52,ws |-> {}]),
    ([l |-> 53,ws |-> {}]),
    ([l |-> 54,ws |-> {}]),
    ([l |-> 55,ws |-> {}]),
    ([l |-> 56,ws |-> {}]),
    ([l |-> 57,ws |-> {}]),
    ([l |-> 58,ws |-> {}]),
    ([l |-> 59,ws |-> {}]),
    ([l |-> 60,ws |-> {}]),
    ([l |-> 61,ws |-> {}]),
    ([l |-> 62,ws |-> {}])
    >>
----


=============================================================================

---- CONFIG Trace_TTrace_1790560789 ----

INVARIANT
    _inv

CHECK_DEADLOCK
    \* CHECK_DEADLOCK off because of PROPERTY or INVARIANT above.
    FALSE

INIT
    _init

NEXT
    _next

CONSTANT
    _TETrace <- _trace

ALIAS
    _expression
=============================================================================
\* Generated on Mon Sep 28 01:59:51 UTC 2026