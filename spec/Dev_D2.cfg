SPECIFICATION Spec
CONSTANTS M = 2
INVARIANTS D2_Agrees
CHECK_DEADLOCK FALSE
