---- MODULE Concurrent_TTrace_1790563212 ----
EXTENDS Sequences, TLCExt, Concurrent, Toolbox, Naturals, TLC

_expression ==
    LET Concurrent_TEExpression == INSTANCE Concurrent_TEExpression
    IN Concurrent_TEExpression!expression
----

_trace ==
    LET Concurrent_TETrace == INSTANCE Concurrent_TETrace
    IN Concurrent_TETrace!trace
----

_inv ==
    ~(
        TLCGet("level") = Len(_TETrace)
        /\
        res = (<<31, -1, -1>>)
        /\
        pc = (<<3, 0, 1>>)
        /\
        sched = (<<1, 1, 3, 1>>)
        /\
        arg = (<<10, 10, 30>>)
        /\
        scratch = (31)
    )
----

_init ==
    /\ arg = _TETrace[1].arg
    /\ scratch = _TETrace[1].scratch
    /\ sched = _TETrace[1].sched
    /\ res = _TETrace[1].res
    /\ pc = _TETrace[1].pc
----

_next ==
    /\ \E i,j \in DOMAIN _TETrace:
        /\ \/ /\ j = i + 1
              /\ i = TLCGet("level")
        /\ arg  = _TETrace[i].arg
        /\ arg' = _TETrace[j].arg
        /\ scratch  = _TETrace[i].scratch
        /\ scratch' = _TETrace[j].scratch
        /\ sched  = _TETrace[i].sched
        /\ sched' = _TETrace[j].sched
        /\ res  = _TETrace[i].res
        /\ res' = _TETrace[j].res
        /\ pc  = _TETrace[i].pc
        /\ pc' = _TETrace[j].pc

\* Uncomment the ASSUME below to write the states of the error trace
\* to the given file in Json format. Note that you can pass any tuple
\* to `JsonSerialize`. For example, a sub-sequence of _TETrace.
    \* ASSUME
    \*     LET J == INSTANCE Json
    \*         IN J!JsonSerialize("Concurrent_TTrace_1790563212.json", _TETrace)

=============================================================================

 Note that you can extract this module `Concurrent_TEExpression`
  to a dedicated file to reuse `expression` (the module in the 
  dedicated `Concurrent_TEExpression.tla` file takes precedence 
  over the module `Concurrent_TEExpression` below).

---- MODULE Concurrent_TEExpression ----
EXTENDS Sequences, TLCExt, Concurrent, Toolbox, Naturals, TLC

expression == 
    [
        \* To hide variables of the `Concurrent` spec from the error trace,
        \* remove the variables below.  The trace will be written in the order
        \* of the fields of this record.
        arg |-> arg
        ,scratch |-> scratch
        ,sched |-> sched
        ,res |-> res
        ,pc |-> pc
        
        \* Put additional constant-, state-, and action-level expressions here:
        \* ,_stateNumber |-> _TEPosition
        \* ,_argUnchanged |-> arg = arg'
        
        \* Format the `arg` variable as Json value.
        \* ,_argJson |->
        \*     LET J == INSTANCE Json
        \*     IN J!ToJson(arg)
        
        \* Lastly, you may build expressions over arbitrary sets of states by
        \* leveraging the _TETrace operator.  For example, this is how to
        \* count the number of times a spec variable changed up to the current
        \* state in the trace.
        \* ,_argModCount |->
        \*     LET F[s \in DOMAIN _TETrace] ==
        \*         IF s = 1 THEN 0
        \*         ELSE IF _TETrace[s].arg # _TETrace[s-1].arg
        \*             THEN 1 + F[s-1] ELSE F[s-1]
        \*     IN F[_TEPosition - 1]
    ]

=============================================================================



Parsing and semantic processing can take forever if the trace below is long.
 In this case, it is advised to uncomment the module below to deserialize the
 trace from a generated binary file.

\*
\*---- MODULE Concurrent_TETrace ----
\*EXTENDS IOUtils, Concurrent, TLC
\*
\*trace == IODeserialize("Concurrent_TTrace_1790563212.bin", TRUE)
\*
\*=============================================================================
\*

---- MODULE Concurrent_TETrace ----
EXTENDS Concurrent, TLC

trace == 
    <<
    ([res |-> <<-1, -1, -1>>,pc |-> <<0, 0, 0>>,sched |-> <<>>,arg |-> <<10, 10, 30>>,scratch |-> 0]),
    ([res |-> <<-1, -1, -1>>,pc |-> <<1, 0, 0>>,sched |-> <<1>>,arg |-> <<10, 10, 30>>,scratch |-> 11]),
    ([res |-> <<-1, -1, -1>>,pc |-> <<2, 0, 0>>,sched |-> <<1, 1>>,arg |-> <<10, 10, 30>>,scratch |-> 11]),
    ([res |-> <<-1, -1, -1>>,pc |-> <<2, 0, 1>>,sched |-> <<1, 1, 3>>,arg |-> <<10, 10, 30>>,scratch |-> 31]),
    ([res |-> <<31, -1, -1>>,pc |-> <<3, 0, 1>>,sched |-> <<1, 1, 3, 1>>,arg |-> <<10, 10, 30>>,scratch |-> 31])
    >>
----


=============================================================================

---- CONFIG Concurrent_TTrace_1790563212 ----
CONSTANTS
    Procs = { 1 , 2 , 3 }
    Gates = 2
    SharedScratch = TRUE

INVARIANT
    _inv

CHECK_DEADLOCK
    \* CHECK_DEADLOCK off because of PROPERTY or INVARIANT above.
    FALSE

INIT
    _init

NEXT
    _next

CONSTANT
    _TETrace <- _trace

ALIAS
    _expression
=============================================================================
\* Generated on Mon Sep 28 02:40:13 UTC 2026